#!/usr/bin/env python3
"""extract_func.py <confuse.c> <outdir>

Mechanical extraction of RECURSIVE functions (run on every check, DESIGN 3.1): CBMC unwinds recursion blindly up to the
loop bound, which makes cfg_getopt_array and cfg_searchpath intractable.  For each listed function F the text of its
definition is copied verbatim from the current source into <outdir>/extracted_F.inc under the name F_top, with one
change: calls to F inside the body become calls to cfgv_rec_F - a contract carrier supplied by the harness, whose
contract is enforced on F_top itself by the same unit family (assume-guarantee on the recursion).
Dropped: nothing else.  Must-fire: the definition is found, ends at a column-0 brace, and contains >= 1 recursive call;
otherwise exit 2 (infrastructure), never a violation.
"""
import re, sys, os
FUNCS = {
    "cfg_getopt_array": r"static cfg_opt_t \*cfg_getopt_array\(",
    "cfg_searchpath": r"DLLIMPORT char \*cfg_searchpath\(",
}
src = open(sys.argv[1]).read()
out = sys.argv[2]
for name, pat in FUNCS.items():
    m = None
    for cand in re.finditer(r"(?m)^" + pat, src):
        # a prototype ends its parameter list with ';', the definition with '{' (forward declarations are skipped)
        close = src.find(")", cand.end())
        while close >= 0 and src.count("(", cand.end() - 1, close + 1) != src.count(")", cand.end() - 1, close + 1):
            close = src.find(")", close + 1)
        if close >= 0 and src[close + 1:].lstrip()[:1] == "{":
            m = cand
            break
    if not m:
        print("extract_func: definition of %s not found" % name); sys.exit(2)
    end = src.find("\n}\n", m.start())
    if end < 0:
        print("extract_func: end of %s not found" % name); sys.exit(2)
    text = src[m.start():end + 3]
    head_end = text.index("{")
    head, body = text[:head_end], text[head_end:]
    head = head.replace(name + "(", name + "_top(", 1).replace("DLLIMPORT ", "static ")
    body2, n = re.subn(r"\b%s\(" % name, "cfgv_rec_%s(" % name, body)
    if n < 1:
        print("extract_func: %s has no recursive call any more" % name); sys.exit(2)
    open(os.path.join(out, "extracted_%s.inc" % name), "w").write(
        "/* extracted verbatim from %s by extract/extract_func.py; %d recursive call(s) redirected to the contract carrier */\n%s%s\n" % (sys.argv[1], n, head, body2))
print("extracted", ", ".join(FUNCS))
