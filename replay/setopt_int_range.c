/* native replay for the abstract integer unit: entry errno from the counterexample, canonical tokens around the
 * range of long; oracle = spec_int (spec/num_spec.h). */
#include <stdio.h>
#include <stdlib.h>
#include <string.h>
#include <errno.h>
#include "confuse.h"
#include "num_spec.h"
static int ndiag;
static void errf(cfg_t *c, const char *fmt, va_list ap) { (void)c; (void)fmt; (void)ap; ndiag++; }
#ifndef R_in_errno
#define R_in_errno 0
#endif
int main(void)
{
	const char *toks[] = { "9223372036854775807", "9223372036854775808", "-9223372036854775808", "-9223372036854775809",
		"0x7fffffffffffffff", "0x8000000000000000", "99999999999999999999999", "12", "-7", "0777", "0b101", "0x1F", "" };
	int bad = 0;
	for (unsigned k = 0; k < sizeof toks / sizeof *toks; k++) {
		cfg_opt_t opts[] = { CFG_INT("o", 0, CFGF_NONE), CFG_END() };
		cfg_t *cfg = cfg_init(opts, CFGF_NONE);
		cfg_opt_t *opt = cfg_getopt(cfg, "o");
		cfg_value_t *r; long want = 0; int verdict;
		cfg_set_error_function(cfg, errf);
		cfg_setint(cfg, "o", 77);
		ndiag = 0;
		errno = (int)R_in_errno;
		r = cfg_setopt(cfg, opt, toks[k]);
		verdict = spec_int(toks[k], &want);
		if (verdict == 1 && !r) { printf("'%s': numeral rejected (entry errno %d)\n", toks[k], (int)R_in_errno); bad = 1; }
		if (verdict == 1 && r && cfg_getint(cfg, "o") != want) { printf("'%s': wrong value %ld\n", toks[k], cfg_getint(cfg, "o")); bad = 1; }
		if (verdict == 0 && r) { printf("'%s': must be rejected, accepted as %ld\n", toks[k], cfg_getint(cfg, "o")); bad = 1; }
		if (!r && ndiag == 0) { printf("'%s': rejected without diagnostic\n", toks[k]); bad = 1; }
		if (!r && (cfg_getint(cfg, "o") != 77 || cfg_size(cfg, "o") != 1)) { printf("'%s': rejected but option changed\n", toks[k]); bad = 1; }
		cfg_free(cfg);
	}
	return bad;
}
