/* native replay for the grammar step unit (limited): the parser state of the counterexample is reached through a
 * canonical token prefix of a fixed schema, the counterexample's token is appended, then a canonical completion for
 * the REFERENCE next state; the real library's verdict (accepted / rejected, diagnostic or not) is compared with the
 * reference automaton's.  Only acceptance is observable this way: counterexamples about actions (annotation, release,
 * callback order) or nested / discarding activations answer 2 (no native input). */
#include <stdio.h>
#include <string.h>
#include "confuse.h"
#include "grammar_spec.h"
#ifndef R_in_cfgflags
#define R_in_cfgflags 0
#endif
#ifndef R_in_curflags
#define R_in_curflags 0
#endif
#ifndef R_in_level
#define R_in_level 0
#endif
#ifndef R_in_force
#define R_in_force (-1)
#endif
static int ndiag;
static void errf(cfg_t *c, const char *fmt, va_list ap) { (void)c; (void)fmt; (void)ap; ndiag++; }
static int fn(cfg_t *c, cfg_opt_t *o, int argc, const char **argv) { (void)c; (void)o; (void)argc; (void)argv; return 0; }
int main(void)
{
	int state = (int)R_in_state, tok = (int)R_in_tok, list = (R_in_curflags & CFGF_LIST) != 0;
	int flags = (int)R_in_cfgflags & (CFGF_COMMENTS | CFGF_IGNORE_UNKNOWN);
	const char *prefix = NULL, *tt = NULL, *suffix = NULL; char text[128];
	sp_in_t si; sp_out_t so; int rc, want_accept;
	cfg_opt_t sub[] = { CFG_INT("a", 0, CFGF_NONE), CFG_END() };
	cfg_opt_t opts[] = { CFG_INT("i", 1, CFGF_NONE), CFG_INT_LIST("l", "{1}", CFGF_NONE), CFG_SEC("s", sub, CFGF_NONE), CFG_SEC("t", sub, CFGF_TITLE | CFGF_MULTI), CFG_FUNC("f", fn), CFG_END() };
	cfg_t *cfg;
	if (R_in_level != 0 || R_in_force != -1 || (R_in_cfgflags & CFGF_KEYSTRVAL)) { printf("nested / discarding activation or free-form section: no native input\n"); return 2; }
	switch (state) {
	case 0: prefix = ""; break; case 1: prefix = list ? "l" : "i"; break; case 2: prefix = list ? "l = {" : "i ="; break; case 3: prefix = "l ="; list = 1; break;
	case 4: prefix = "l = {1"; list = 1; break; case 5: prefix = "s"; break; case 6: prefix = "t"; break; case 7: prefix = "f"; break; case 8: prefix = "f("; break; case 9: prefix = "f(a"; break;
	case 10: prefix = "u"; flags |= CFGF_IGNORE_UNKNOWN; break; case 14: prefix = "u ="; flags |= CFGF_IGNORE_UNKNOWN; break;
	default: printf("state %d has no canonical prefix\n", state); return 2;
	}
	switch (tok) {
	case 0: tt = "\"\\9\""; break; case -1: tt = ""; break; case CFGT_STR: tt = state == 0 ? "i" : "7"; break; case CFGT_COMMENT: tt = "/*c*/"; break;
	case '{': tt = "{"; break; case '}': tt = "}"; break; case '(': tt = "("; break; case ')': tt = ")"; break; case '=': tt = "="; break; case '+': tt = "+="; break; case ',': tt = ","; break;
	default: return 2;
	}
	memset(&si, 0, sizeof si);
	si.state = state; si.tok = tok; si.level = 0; si.skipmode = 0;
	si.ctx_comments = (flags & CFGF_COMMENTS) != 0; si.ctx_ignore_unknown = (flags & CFGF_IGNORE_UNKNOWN) != 0;
	si.cur_null = state == 0; si.cur_is_sec = state == 5 || state == 6; si.cur_is_func = state >= 7 && state <= 9; si.cur_list = list; si.cur_title = state == 6;
	si.cur_reset_after = 1; si.num_values = state == 4 ? 1 : 0; si.ignore = 0;
	si.found = 1; si.found_is_sec = 0; si.found_is_func = 0; si.setopt_ok = 1; si.addval_ok = 1; si.strdup_ok = 1; si.call_ret = 0; si.rec_result = SP_RET_EOF;
	spec_step(&si, &so);
	if (so.outcome == SP_CONT) {
		switch (so.next_state) {
		case 0: suffix = ""; break; case 1: suffix = " = 7"; break; case 2: suffix = list ? " }" : " 7"; break; case 3: suffix = " {7}"; break; case 4: suffix = " }"; break;
		case 5: suffix = " { }"; break; case 6: suffix = " x { }"; break; case 7: suffix = "()"; break; case 8: case 9: suffix = ")"; break;
		case 14: suffix = " 1"; break; case 10: suffix = " = 1"; break;
		default: printf("next state %d has no canonical completion\n", so.next_state); return 2;
		}
		want_accept = 1;
	} else { suffix = ""; want_accept = so.outcome == SP_RET_EOF; }
	snprintf(text, sizeof text, "%s %s%s\n", prefix, tt, suffix);
	cfg = cfg_init(opts, flags);
	cfg_set_error_function(cfg, errf);
	rc = cfg_parse_buf(cfg, text);
	printf("text: %s  reference: %s; library: %s, %d diagnostic(s)\n", text, want_accept ? "accept" : "reject", rc == CFG_SUCCESS ? "accepts" : "rejects", ndiag);
	cfg_free(cfg);
	if ((rc == CFG_SUCCESS) != (want_accept != 0)) return 1;
	if (rc != CFG_SUCCESS && ndiag == 0) { printf("rejected without diagnostic\n"); return 1; }
	if (rc == CFG_SUCCESS && ndiag != 0) { printf("accepted with a diagnostic\n"); return 1; }
	return 0;
}
