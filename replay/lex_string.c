/* native replay for the scanner units on quoted strings (lex_act_dq, lex_act_sq, lex_dfa with a string context):
 * the token text of the counterexample is put inside a quoted string of a one-option configuration, parsed by the real
 * library, and the value is compared with the reference decoding (spec/lex_spec.h); the line of a diagnostic placed
 * after the string is compared with the newline count.  exit 1 = reproduced. */
#include <stdio.h>
#include <stdlib.h>
#include <string.h>
#include "confuse.h"
#include "lex_spec.h"
static int ndiag, lastline;
static void errf(cfg_t *c, const char *fmt, va_list ap) { (void)fmt; (void)ap; ndiag++; lastline = c->line; }
int main(void)
{
	char raw[] = R_in_tok_INIT; unsigned n = 0; int bad = 0;
#if defined(R_UNIT_SQ)
	const char q = '\'';
#else
	const char q = '"';
#endif
	char text[64]; unsigned char want[64], body[64]; unsigned wn = 0, tn = 0, bn = 0; int ok, subst = 0;
	cfg_opt_t opts[] = { CFG_STR("s", "dflt", CFGF_NONE), CFG_END() };
	cfg_t *cfg = cfg_init(opts, CFGF_NONE);
	while (n < sizeof raw && raw[n]) n++;
	cfg_set_error_function(cfg, errf);
	tn += (unsigned)sprintf(text, "s = %c", q);
	memcpy(text + tn, raw, n); tn += n; memcpy(body, raw, n); bn = n;
	/* close the string unless the token itself is the closing quote */
	if (!(n == 1 && raw[0] == q)) { text[tn++] = q; body[bn++] = (unsigned char)q; }
	text[tn] = 0;
	ok = q == '"' ? spec_decode_dq(body, bn, want, &wn, &subst) : spec_decode_sq(body, bn, want, &wn);
	printf("text: "); for (unsigned i = 0; i < tn; i++) printf(text[i] >= 32 && text[i] < 127 ? "%c" : "\\x%02x", (unsigned char)text[i]); printf("\n");
	{
		int rc = cfg_parse_buf(cfg, text);
		const char *got = cfg_getstr(cfg, "s");
		if (subst) { printf("contains an environment substitution: not replayed\n"); cfg_free(cfg); return 2; }
		if (ok && rc != CFG_SUCCESS) { printf("reference: one well-formed string; library rejects it\n"); bad = 1; }
		if (!ok && rc == CFG_SUCCESS && strcmp(got, "dflt") != 0) { printf("reference: not a well-formed string; library accepts it as a value\n"); bad = 1; }
		if (ok && rc == CFG_SUCCESS && (strlen(got) != wn || memcmp(got, want, wn) != 0)) {
			printf("value differs from the reference decoding: got"); for (size_t i = 0; got[i]; i++) printf(" %02x", (unsigned char)got[i]);
			printf(" want"); for (unsigned i = 0; i < wn; i++) printf(" %02x", want[i]); printf("\n"); bad = 1;
		}
		if (rc != CFG_SUCCESS && ndiag == 0) { printf("rejected without diagnostic\n"); bad = 1; }
	}
	cfg_free(cfg);
	/* line counting: an unknown option right after the string must be reported on line 1 + newlines in the string */
	{
		cfg_t *c2 = cfg_init(opts, CFGF_NONE); char t2[80]; int nl = 0;
		cfg_set_error_function(c2, errf); ndiag = 0; lastline = -1;
		for (unsigned i = 0; i < tn; i++) if (text[i] == '\n') nl++;
		sprintf(t2, "%s\nzz = 1\n", text);
		if (ok && cfg_parse_buf(c2, t2) == CFG_PARSE_ERROR && ndiag > 0 && lastline != 2 + nl) { printf("diagnostic on line %d, expected %d\n", lastline, 2 + nl); bad = 1; }
		cfg_free(c2);
	}
	return bad;
}
