/* native replay for the section-store units (cfg_setopt section arm, cfg_addtsec, cfg_opt_rmnsec / cfg_opt_rmtsec, cfg_rmsec,
 * cfg_opt_gettsec): every sequence of up to 3 operations out of {add title a|b|c, remove title a|b|x, remove index 0|1|5,
 * remove by path "s=a"|"s=x", re-open title a by parsing} is run on a real context next to an abstract store (an ordered
 * list of titles with the integer each instance was given), and after every operation the observable state is compared:
 * result code, number of instances, titles in order, each instance's value, every instance still usable.
 * The counterexample's inputs select nothing (the proof unit's shape is a compile-time constant); ASan/UBSan watch the run.
 * exit 1 = reproduced, 0 = not reproduced. */
#include <stdio.h>
#include <string.h>
#include <stdlib.h>
#include "confuse.h"

typedef struct { char t[4]; long v; } inst_t;
static inst_t model[8]; static int mn;
static cfg_t *cfg; static long next_v;
static int bad;
static int m_find(const char *t) { for (int i = 0; i < mn; i++) if (!strcmp(model[i].t, t)) return i; return -1; }
static void m_remove(int k) { for (int i = k; i + 1 < mn; i++) model[i] = model[i + 1]; mn--; }
static void compare(const char *what)
{
	unsigned n = cfg_size(cfg, "s");
	if ((int)n != mn) { printf("after %s: %u instances, the store prescribes %d\n", what, n, mn); bad = 1; return; }
	for (int i = 0; i < mn; i++) {
		cfg_t *sec = cfg_getnsec(cfg, "s", (unsigned)i);
		if (!sec || !cfg_title(sec) || strcmp(cfg_title(sec), model[i].t)) { printf("after %s: instance %d is titled '%s', the store prescribes '%s'\n", what, i, sec && cfg_title(sec) ? cfg_title(sec) : "(none)", model[i].t); bad = 1; continue; }
		if (cfg_getint(sec, "i") != model[i].v) { printf("after %s: instance '%s' holds %ld, the store prescribes %ld\n", what, model[i].t, cfg_getint(sec, "i"), model[i].v); bad = 1; }
		if (cfg_gettsec(cfg, "s", model[i].t) != sec) { printf("after %s: lookup by title '%s' does not give instance %d\n", what, model[i].t, i); bad = 1; }
	}
	if (cfg_gettsec(cfg, "s", "zz") != NULL) { printf("after %s: an unknown title resolves\n", what); bad = 1; }
}
enum { ADD_A, ADD_B, ADD_C, RMT_A, RMT_B, RMT_X, RMN_0, RMN_1, RMN_5, RMP_A, RMP_X, REOPEN_A, NOPS };
static const char *opname[NOPS] = { "add a", "add b", "add c", "rm title a", "rm title b", "rm title x", "rm index 0", "rm index 1", "rm index 5", "rm path s=a", "rm path s=x", "parse s \"a\" {i=..}" };
static void apply(int op)
{
	static const char *T[3] = { "a", "b", "c" };
	if (op <= ADD_C) {
		const char *t = T[op]; int k = m_find(t); cfg_t *sec = cfg_addtsec(cfg, "s", t);
		if (k >= 0) { if (sec) { printf("%s: a title that exists was added again\n", opname[op]); bad = 1; } }
		else if (!sec) { printf("%s: refused although the title is new\n", opname[op]); bad = 1; }
		else { cfg_setint(sec, "i", ++next_v); strcpy(model[mn].t, t); model[mn].v = next_v; mn++; }
	} else if (op <= RMT_X) {
		const char *t = op == RMT_A ? "a" : op == RMT_B ? "b" : "x"; int k = m_find(t); int rc = cfg_rmtsec(cfg, "s", t);
		if (k < 0) { if (rc != CFG_FAIL) { printf("%s: removing a title that does not exist succeeded\n", opname[op]); bad = 1; } }
		else if (rc != CFG_SUCCESS) { printf("%s: refused although the title exists\n", opname[op]); bad = 1; }
		else m_remove(k);
	} else if (op <= RMN_5) {
		unsigned k = op == RMN_0 ? 0 : op == RMN_1 ? 1 : 5; int rc = cfg_rmnsec(cfg, "s", k);
		if ((int)k >= mn) { if (rc != CFG_FAIL) { printf("%s: removing an instance that does not exist succeeded\n", opname[op]); bad = 1; } }
		else if (rc != CFG_SUCCESS) { printf("%s: refused although the instance exists\n", opname[op]); bad = 1; }
		else m_remove((int)k);
	} else if (op <= RMP_X) {
		const char *t = op == RMP_A ? "a" : "x"; int k = m_find(t); int rc = cfg_rmsec(cfg, op == RMP_A ? "s=a" : "s=x");
		if (k < 0) { if (rc != CFG_FAIL) { printf("%s: removing a path that does not resolve succeeded\n", opname[op]); bad = 1; } }
		else if (rc != CFG_SUCCESS) { printf("%s: refused although the path resolves\n", opname[op]); bad = 1; }
		else m_remove(k);
	} else {
		/* a repeated title in parsed text re-creates that instance in place (same position), with the new body */
		char buf[64]; int k = m_find("a");
		snprintf(buf, sizeof buf, "s \"a\" { i = %ld }\n", ++next_v);
		if (cfg_parse_buf(cfg, buf) != CFG_SUCCESS) { printf("%s: rejected\n", opname[op]); bad = 1; return; }
		if (k >= 0) model[k].v = next_v; else { strcpy(model[mn].t, "a"); model[mn].v = next_v; mn++; }
	}
}
static void run(int a, int b, int c)
{
	static cfg_opt_t sub[] = { CFG_INT("i", 0, CFGF_NONE), CFG_END() };
	static cfg_opt_t opts[] = { CFG_SEC("s", sub, CFGF_MULTI | CFGF_TITLE), CFG_INT("k", 1, CFGF_NONE), CFG_END() };
	int ops[3] = { a, b, c }; char what[96];
	cfg = cfg_init(opts, CFGF_NONE); mn = 0; next_v = 100;
	cfg_add_searchpath(cfg, "/tmp");      /* sections share the root's search path: removal must not release it */
	for (int i = 0; i < 3; i++) {
		if (ops[i] < 0) break;
		apply(ops[i]);
		snprintf(what, sizeof what, "[%s; %s; %s] step %d", opname[a], b >= 0 ? opname[b] : "-", c >= 0 ? opname[c] : "-", i + 1);
		compare(what);
		if (bad) break;
	}
	/* the context is still fully usable */
	if (!bad && (cfg_getint(cfg, "k") != 1 || cfg_parse_buf(cfg, "k = 2\n") != CFG_SUCCESS || cfg_getint(cfg, "k") != 2)) { printf("the context is no longer usable after the sequence\n"); bad = 1; }
	cfg_free(cfg);
}
int main(void)
{
	for (int a = 0; a < NOPS && !bad; a++) {
		run(a, -1, -1);
		for (int b = 0; b < NOPS && !bad; b++) {
			run(a, b, -1);
			for (int c = 0; c < NOPS && !bad; c++) run(a, b, c);
		}
	}
	return bad;
}
