/* native replay for the printer units (C19 C05): a reference printer written from spec/print_spec.h walks a real
 * configuration through the public accessors only and renders the text the statement prescribes (every option the
 * effective filter accepts, once, in declaration order, at its depth; strings quoted with exactly '"' and '\' escaped;
 * unset scalars commented out; sections with header, body one level deeper, footer; a print callback in place of the
 * built-in value format).  The real cfg_print()/cfg_print_indent()/cfg_opt_print() output must be byte-identical, for a
 * battery of contexts: defaults only, after a parse with annotations, with a filter on the root, with a filter on one
 * section, with a print callback, at indentations 0..2.  The counterexample's own inputs select nothing here (the
 * proof unit's shape is a compile-time constant): every shape the public API can build is replayed.
 * exit 1 = reproduced, 0 = not reproduced. */
#ifndef _GNU_SOURCE
#define _GNU_SOURCE
#endif
#include <stdio.h>
#include <string.h>
#include <stdlib.h>
#include "confuse.h"

static char want[8192]; static size_t wn;
static void w(const char *s) { size_t l = strlen(s); if (wn + l < sizeof want) { memcpy(want + wn, s, l); wn += l; } want[wn] = 0; }
static void windent(int d) { while (d-- > 0) w("  "); }
static void my_pf(cfg_opt_t *opt, unsigned int index, FILE *fp) { fprintf(fp, "<%s#%u>", cfg_opt_name(opt), index); }
static cfg_print_func_t pf_of[16]; static const char *pf_name[16]; static int npf;
static cfg_print_func_t pf_for(cfg_opt_t *o) { for (int i = 0; i < npf; i++) if (!strcmp(pf_name[i], cfg_opt_name(o))) return pf_of[i]; return NULL; }
static int hide_b(cfg_t *c, cfg_opt_t *o) { (void)c; return strcmp(cfg_opt_name(o), "b") == 0; }
static int hide_i(cfg_t *c, cfg_opt_t *o) { (void)c; return strcmp(cfg_opt_name(o), "i") == 0; }
/* the filters in force are known to the battery, not read from the library: context pointer -> own filter */
static cfg_t *flt_ctx[8]; static cfg_print_filter_func_t flt_fn[8]; static int nflt;
static cfg_print_filter_func_t own_filter(cfg_t *c) { for (int i = 0; i < nflt; i++) if (flt_ctx[i] == c) return flt_fn[i]; return NULL; }

static void ref_value(cfg_opt_t *o, unsigned i, int type)
{
	char b[128];
	if (pf_for(o)) { snprintf(b, sizeof b, "<%s#%u>", cfg_opt_name(o), i); w(b); return; }
	switch (type) {
	case CFGT_INT: snprintf(b, sizeof b, "%ld", cfg_opt_getnint(o, i)); w(b); break;
	case CFGT_FLOAT: snprintf(b, sizeof b, "%f", cfg_opt_getnfloat(o, i)); w(b); break;
	case CFGT_BOOL: w(cfg_opt_getnbool(o, i) ? "true" : "false"); break;
	case CFGT_STR: {
		const char *s = cfg_opt_getnstr(o, i);
		w("\"");
		for (; s && *s; s++) { if (*s == '"' || *s == '\\') w("\\"); b[0] = *s; b[1] = 0; w(b); }
		w("\"");
		break; }
	default: break;
	}
}
static void ref_cfg(cfg_t *c, cfg_print_filter_func_t inherited, int depth);
static void ref_opt(cfg_opt_t *o, cfg_print_filter_func_t eff, int depth)
{
	int type = o->type, flags = o->flags;      /* the declared shape (schema data, public in confuse.h) */
	const char *cm = cfg_opt_getcomment(o);
	if ((flags & CFGF_COMMENTS) && cm) { windent(depth); w("/* "); w(cm); w(" */\n"); }
	if (type == CFGT_SEC) {
		for (unsigned i = 0; i < cfg_opt_size(o); i++) {
			cfg_t *sec = cfg_opt_getnsec(o, i);
			windent(depth); w(cfg_opt_name(o));
			if (flags & CFGF_TITLE) { w(" \""); w(cfg_title(sec)); w("\""); }
			w(" {\n");
			ref_cfg(sec, eff, depth + 1);
			windent(depth); w("}\n");
		}
	} else if (type != CFGT_FUNC && type != CFGT_NONE) {
		windent(depth);
		if (flags & CFGF_LIST) {
			w(cfg_opt_name(o)); w(" = {");
			for (unsigned i = 0; i < cfg_opt_size(o); i++) { if (i) w(", "); ref_value(o, i, type); }
			w("}");
		} else {
			if (cfg_opt_size(o) == 0 || (type == CFGT_STR && !cfg_opt_getnstr(o, 0))) w("# ");
			w(cfg_opt_name(o)); w("=");
			ref_value(o, 0, type);
		}
		w("\n");
	} else if (pf_for(o)) { windent(depth); ref_value(o, 0, type); w("\n"); }
}
static void ref_cfg(cfg_t *c, cfg_print_filter_func_t inherited, int depth)
{
	cfg_print_filter_func_t eff = own_filter(c) ? own_filter(c) : inherited;
	for (unsigned i = 0; i < cfg_num(c); i++) {
		cfg_opt_t *o = cfg_getnopt(c, i);
		if (eff && eff(c, o)) continue;
		ref_opt(o, eff, depth);
	}
}
static int compare(const char *what, cfg_t *c, int depth)
{
	char *got = NULL; size_t gl = 0; FILE *fp = open_memstream(&got, &gl); int bad = 0;
	if (depth == 0) cfg_print(c, fp); else cfg_print_indent(c, fp, depth);
	fclose(fp);
	wn = 0; want[0] = 0; ref_cfg(c, NULL, depth);
	if (gl != wn || memcmp(got, want, wn)) {
		printf("MISMATCH (%s, depth %d)\n--- printed by the library:\n%s--- prescribed:\n%s---\n", what, depth, got, want);
		bad = 1;
	}
	free(got);
	return bad;
}
static cfg_t *build(int comments);
/* C05: the printed text parses back into a fresh context of the same schema; that context prints the same text when
 * annotation support is off, and in every case a text that one more parse-and-print cycle leaves unchanged */
static char *print_of(cfg_t *c) { char *t = NULL; size_t l = 0; FILE *fp = open_memstream(&t, &l); cfg_print(c, fp); fclose(fp); return t; }
static int reparse(cfg_t *c, int comments)
{
	char *t1 = print_of(c), *t2 = NULL, *t3 = NULL; cfg_t *d = build(comments), *e = NULL; int bad = 0;
	if (cfg_parse_buf(d, t1) != CFG_SUCCESS) { printf("the printed text does not parse back:\n%s---\n", t1); bad = 1; }
	else {
		t2 = print_of(d);
		if (!comments && strcmp(t1, t2)) { printf("print -> parse -> print differs (annotation support off)\n--- first:\n%s--- second:\n%s---\n", t1, t2); bad = 1; }
		e = build(comments);
		if (cfg_parse_buf(e, t2) != CFG_SUCCESS) { printf("the second text does not parse back:\n%s---\n", t2); bad = 1; }
		else { t3 = print_of(e); if (strcmp(t2, t3)) { printf("a further parse-and-print cycle changes the text\n--- second:\n%s--- third:\n%s---\n", t2, t3); bad = 1; } }
	}
	cfg_free(d); if (e) cfg_free(e); free(t1); free(t2); free(t3);
	return bad;
}
static cfg_t *build(int comments)
{
	static cfg_opt_t sub[] = { CFG_INT("i", 3, CFGF_NONE), CFG_STR("s", "in", CFGF_NONE), CFG_BOOL("b", cfg_false, CFGF_NONE), CFG_END() };
	static cfg_opt_t inner[] = { CFG_FLOAT("f", 0.25, CFGF_NONE), CFG_BOOL("b", cfg_true, CFGF_NONE), CFG_END() };
	static cfg_opt_t mid[] = { CFG_INT("i", 9, CFGF_NONE), CFG_SEC("in", inner, CFGF_NONE), CFG_END() };
	static cfg_opt_t opts[] = {
		CFG_INT("i", 7, CFGF_NONE), CFG_INT("unset", 0, CFGF_NODEFAULT), CFG_STR("s", "a\"b\\c", CFGF_NONE), CFG_STR("nul", 0, CFGF_NONE), CFG_STR("dollar", "US$", CFGF_NONE), CFG_STR("dir", "C:$\\dir $\"x\"", CFGF_NONE),
		CFG_BOOL("b", cfg_true, CFGF_NONE), CFG_FLOAT("f", 1.5, CFGF_NONE), CFG_INT_LIST("il", "{1, 2}", CFGF_NONE), CFG_STR_LIST("sl", "{x, \"y z\"}", CFGF_NONE),
		CFG_INT_LIST("empty", 0, CFGF_NONE), CFG_SEC("sec", sub, CFGF_MULTI | CFGF_TITLE), CFG_SEC("one", mid, CFGF_NONE), CFG_FUNC("include", cfg_include), CFG_END() };
	cfg_t *c = cfg_init(opts, comments ? CFGF_COMMENTS : CFGF_NONE);
	return c;
}
int main(void)
{
	int bad = 0;
	for (int comments = 0; comments < 2; comments++) {
		cfg_t *c = build(comments);
		nflt = 0; npf = 0;
		for (int d = 0; d < 3; d++) bad |= compare("defaults only", c, d);
		if (cfg_parse_buf(c, "# about i\ni = -12\n/* first */\nsec \"a\" { i = 1  s = \"q\\\"\" }\nsec \"b\" { b = yes }\nil = {5}\n# inner\none { i = 4 in { f = 2.5 } }\nsl += {w}\n") != CFG_SUCCESS) { printf("battery text rejected\n"); return 2; }
		for (int d = 0; d < 3; d++) bad |= compare("after a parse", c, d);
		for (int d = 7; d < 13; d++) bad |= compare("deep indentation", c, d);
		bad |= reparse(c, comments);
		/* filter on the root: inherited by every section */
		cfg_set_print_filter_func(c, hide_b); flt_ctx[0] = c; flt_fn[0] = hide_b; nflt = 1;
		bad |= compare("root filter hides b everywhere", c, 0);
		/* a section's own filter takes precedence inside it (and below) */
		{ cfg_t *sa = cfg_gettsec(c, "sec", "a"); cfg_set_print_filter_func(sa, hide_i); flt_ctx[1] = sa; flt_fn[1] = hide_i; nflt = 2; }
		bad |= compare("section a has its own filter", c, 0);
		{ cfg_t *one = cfg_getsec(c, "one"); cfg_set_print_filter_func(one, hide_i); flt_ctx[2] = one; flt_fn[2] = hide_i; nflt = 3; }
		bad |= compare("section one has its own filter, inherited by its sub-section", c, 1);
		/* filters cleared again */
		cfg_set_print_filter_func(c, NULL); nflt = 0;
		{ cfg_t *sa = cfg_gettsec(c, "sec", "a"); cfg_set_print_filter_func(sa, NULL); cfg_set_print_filter_func(cfg_getsec(c, "one"), NULL); }
		bad |= compare("filters cleared", c, 0);
		/* print callbacks on a scalar, a list and a function option */
		cfg_set_print_func(c, "i", my_pf); pf_name[npf] = "i"; pf_of[npf++] = my_pf;
		cfg_set_print_func(c, "sl", my_pf); pf_name[npf] = "sl"; pf_of[npf++] = my_pf;
		cfg_set_print_func(c, "include", my_pf); pf_name[npf] = "include"; pf_of[npf++] = my_pf;
		cfg_set_print_func(c, "unset", my_pf); pf_name[npf] = "unset"; pf_of[npf++] = my_pf;
		cfg_set_print_func(c, "nul", my_pf); pf_name[npf] = "nul"; pf_of[npf++] = my_pf;
		/* (the callback of "i" is installed on the root's option only; sections have their own option objects) */
		{
			char *got = NULL; size_t gl = 0; FILE *fp = open_memstream(&got, &gl);
			cfg_opt_print(cfg_getopt(c, "i"), fp); cfg_opt_print_indent(cfg_getopt(c, "sl"), fp, 2); cfg_opt_print(cfg_getopt(c, "include"), fp);
			cfg_opt_print(cfg_getopt(c, "unset"), fp); cfg_opt_print(cfg_getopt(c, "nul"), fp);
			fclose(fp);
			wn = 0; want[0] = 0;
			ref_opt(cfg_getopt(c, "i"), NULL, 0); ref_opt(cfg_getopt(c, "sl"), NULL, 2); ref_opt(cfg_getopt(c, "include"), NULL, 0);
			ref_opt(cfg_getopt(c, "unset"), NULL, 0); ref_opt(cfg_getopt(c, "nul"), NULL, 0);
			if (!strstr(want, "# unset=<unset#0>\n") || !strstr(want, "# nul=<nul#0>\n")) { printf("battery broken (unset)\n"); return 2; }
			if (!strstr(want, "i=<i#0>\n") || !strstr(want, "    sl = {<sl#0>, <sl#1>, <sl#2>}\n") || !strstr(want, "<include#0>\n")) { printf("battery broken\n"); return 2; }
			if (gl != wn || memcmp(got, want, wn)) { printf("MISMATCH (print callbacks)\n--- printed:\n%s--- prescribed:\n%s---\n", got, want); bad = 1; }
			free(got);
		}
		cfg_free(c);
		/* sections created while one filter was installed follow the filter installed at print time (they own none) */
		c = build(comments); npf = 0;
		cfg_set_print_filter_func(c, hide_b);
		if (cfg_parse_buf(c, "sec \"a\" { i = 1 }\none { i = 4 in { f = 2.5 } }\n") != CFG_SUCCESS) { printf("battery text rejected\n"); return 2; }
		cfg_addtsec(c, "sec", "late");
		cfg_set_print_filter_func(c, hide_i); flt_ctx[0] = c; flt_fn[0] = hide_i; nflt = 1;
		bad |= compare("root filter replaced after the sections were created", c, 0);
		cfg_set_print_filter_func(c, NULL); nflt = 0;
		bad |= compare("root filter cleared after the sections were created", c, 0);
		cfg_free(c);
	}
	return bad;
}
