/* native replay for the string-store units (cfg_opt_setnstr / cfg_setnstr): every option shape the public API can build
 * (scalar or list, holding defaults or explicitly set to n values) is rebuilt, the setter is called with the
 * counterexample's index and (a) a fresh text, (b) NULL is skipped, (c) the very string the slot holds (aliasing), and
 * the store contract is evaluated on the real library under ASan.
 * exit 1 = reproduced (or a sanitizer report), 0 = not reproduced. */
#include <stdio.h>
#include <string.h>
#include <stdlib.h>
#include "confuse.h"
#ifndef R_in_index
#define R_in_index 0
#endif
static int one(int list, int pristine, unsigned n, unsigned idx, int alias)
{
	int bad = 0; unsigned size0, i; char before[8][16]; char want[16];
	cfg_opt_t opts_scalar[] = { CFG_STR("o", "dflt", CFGF_NONE), CFG_END() };
	cfg_opt_t opts_list[] = { CFG_STR_LIST("o", "{d0, d1}", CFGF_NONE), CFG_END() };
	cfg_t *cfg; int rc; const char *arg;
	if (n > 3 || (!list && n > 1) || (!list && !pristine && n == 0)) return 0;
	cfg = cfg_init(list ? opts_list : opts_scalar, CFGF_NONE);
	if (!pristine) {
		if (list) { if (n == 0) cfg_setlist(cfg, "o", 0); else if (n == 1) cfg_setlist(cfg, "o", 1, "v0"); else if (n == 2) cfg_setlist(cfg, "o", 2, "v0", "v1"); else cfg_setlist(cfg, "o", 3, "v0", "v1", "v2"); }
		else cfg_setstr(cfg, "o", "v0");
	}
	size0 = cfg_size(cfg, "o");
	for (i = 0; i < size0 && i < 8; i++) { const char *s = cfg_getnstr(cfg, "o", i); snprintf(before[i], sizeof before[i], "%s", s ? s : "(null)"); }
	if (alias) {
		if (idx >= size0) { cfg_free(cfg); return 0; }
		arg = cfg_getnstr(cfg, "o", idx);
		snprintf(want, sizeof want, "%s", arg ? arg : "(null)");
	} else { arg = "fresh"; snprintf(want, sizeof want, "fresh"); }
	rc = cfg_setnstr(cfg, "o", arg, idx);
	if (!list && idx != 0) {
		if (rc != CFG_FAIL) { printf("index beyond a scalar accepted\n"); bad = 1; }
		if (cfg_size(cfg, "o") != size0) { printf("refused call changed the size\n"); bad = 1; }
		for (i = 0; i < size0 && i < 8 && i < cfg_size(cfg, "o"); i++) { const char *s = cfg_getnstr(cfg, "o", i); if (!s || strcmp(s, before[i])) { printf("refused call changed value %u\n", i); bad = 1; } }
	} else {
		unsigned want_size = pristine ? 1 : (idx < size0 ? size0 : size0 + 1), at = pristine ? 0 : (idx < size0 ? idx : size0);
		if (rc != CFG_SUCCESS) { printf("legal call failed\n"); bad = 1; }
		else {
			const char *s;
			if (cfg_size(cfg, "o") != want_size) { printf("size %u, expected %u\n", cfg_size(cfg, "o"), want_size); bad = 1; }
			else if (!(s = cfg_getnstr(cfg, "o", at)) || strcmp(s, want)) { printf("slot %u holds \"%s\", expected a copy of \"%s\"\n", at, s ? s : "(null)", want); bad = 1; }
			if (!pristine) for (i = 0; i < size0 && i < 8; i++) if (i != at) { s = cfg_getnstr(cfg, "o", i); if (!s || strcmp(s, before[i])) { printf("another value changed (%u)\n", i); bad = 1; } }
		}
	}
	if (bad) printf("  ^ %s option, %s, size %u; cfg_setnstr(.., %s, %u)\n", list ? "list" : "scalar", pristine ? "holding its default" : "explicitly set", size0, alias ? "<the slot's own string>" : "\"fresh\"", idx);
	cfg_free(cfg);
	return bad;
}
int main(void)
{
	int bad = 0; unsigned idx = (unsigned)R_in_index;
	for (int alias = 0; alias < 2; alias++) for (int list = 0; list < 2; list++) for (int pristine = 0; pristine < 2; pristine++) for (unsigned n = 0; n < 4; n++) {
		bad |= one(list, pristine, n, idx, alias);
		if (idx > 3) bad |= one(list, pristine, n, idx % 4, alias);
	}
	return bad;
}
