/* native replay for the abstract float unit: the counterexample fixes the entry errno; the token of an abstract
 * counterexample is not meaningful for the real strtod, so a fixed family of canonical tokens is replayed with that
 * errno; oracle = glibc strtod itself (complete match, >= 1 byte converted, no range error). */
#include <stdio.h>
#include <stdlib.h>
#include <string.h>
#include <errno.h>
#include "confuse.h"
static int ndiag;
static void errf(cfg_t *c, const char *fmt, va_list ap) { (void)c; (void)fmt; (void)ap; ndiag++; }
#ifndef R_in_errno
#define R_in_errno 0
#endif
int main(void)
{
	const char *toks[] = { "", "1.5", "-2e3", "1e999", "abc", "1.5x", ".", "e5", "0x1p3", "7" };
	int bad = 0;
	for (unsigned k = 0; k < sizeof toks / sizeof *toks; k++) {
		cfg_opt_t opts[] = { CFG_FLOAT("o", 0.5, CFGF_NONE), CFG_END() };
		cfg_t *cfg = cfg_init(opts, CFGF_NONE);
		cfg_opt_t *opt = cfg_getopt(cfg, "o");
		cfg_value_t *r; char *e; double d; int full, range;
		cfg_set_error_function(cfg, errf);
		cfg_setfloat(cfg, "o", 1.25);
		ndiag = 0;
		errno = (int)R_in_errno;
		r = cfg_setopt(cfg, opt, toks[k]);
		errno = 0; d = strtod(toks[k], &e); range = errno == ERANGE; full = (e != toks[k] && *e == 0);
		if (full && !range && !r) { printf("'%s': complete in-range float numeral rejected (entry errno %d)\n", toks[k], (int)R_in_errno); bad = 1; }
		if ((!full || range) && r) { printf("'%s': not a complete in-range float numeral, accepted as %f\n", toks[k], cfg_getfloat(cfg, "o")); bad = 1; }
		if (r && full && !range && cfg_getfloat(cfg, "o") != d) { printf("'%s': wrong value\n", toks[k]); bad = 1; }
		if (!r && ndiag == 0) { printf("'%s': rejected without diagnostic\n", toks[k]); bad = 1; }
		if (!r && (cfg_getfloat(cfg, "o") != 1.25 || cfg_size(cfg, "o") != 1)) { printf("'%s': rejected but option changed\n", toks[k]); bad = 1; }
		cfg_free(cfg);
	}
	return bad;
}
