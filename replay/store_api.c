/* native replay for the store units on cfg_opt_getval / typed setters: the option state of the counterexample
 * (scalar or list, still holding its default or explicitly set to n values) is rebuilt through the public API, the
 * setter is called with the counterexample's index, and the store contract is evaluated on the real library.
 * exit 1 = reproduced, 0 = not reproduced, 2 = this counterexample has no public-API counterpart. */
#include <stdio.h>
#include <string.h>
#include "confuse.h"
#ifndef R_in_flags
#define R_in_flags 0
#endif
#ifndef R_in_n
#define R_in_n 0
#endif
#ifndef R_in_index
#define R_in_index 0
#endif
#ifndef R_in_type
#define R_in_type CFGT_INT
#endif
static int one(int list, int pristine, unsigned n, unsigned idx)
{
	int bad = 0; unsigned size0, i; long before[8];
	cfg_opt_t opts_scalar[] = { CFG_INT("o", 7, CFGF_NONE), CFG_END() };
	cfg_opt_t opts_list[] = { CFG_INT_LIST("o", "{7, 8}", CFGF_NONE), CFG_END() };
	cfg_t *cfg; int rc;
	if (n > 3 || (!list && n > 1) || (!list && !pristine && n == 0)) return 0;
	cfg = cfg_init(list ? opts_list : opts_scalar, CFGF_NONE);
	if (!pristine) {
		if (list) { if (n == 0) cfg_setlist(cfg, "o", 0); else if (n == 1) cfg_setlist(cfg, "o", 1, 11); else if (n == 2) cfg_setlist(cfg, "o", 2, 11, 12); else cfg_setlist(cfg, "o", 3, 11, 12, 13); }
		else cfg_setint(cfg, "o", 11);
	}
	size0 = cfg_size(cfg, "o");
	for (i = 0; i < size0 && i < 8; i++) before[i] = cfg_getnint(cfg, "o", i);
	rc = cfg_setnint(cfg, "o", 4242, idx);
	if (!list && idx != 0) {
		if (rc != CFG_FAIL) { printf("index beyond a scalar accepted\n"); bad = 1; }
		if (cfg_size(cfg, "o") != size0) { printf("refused call changed the size: %u -> %u\n", size0, cfg_size(cfg, "o")); bad = 1; }
		for (i = 0; i < size0 && i < 8 && i < cfg_size(cfg, "o"); i++) if (cfg_getnint(cfg, "o", i) != before[i]) { printf("refused call changed value %u\n", i); bad = 1; }
	} else {
		unsigned want_size = pristine ? 1 : (idx < size0 ? size0 : size0 + 1), at = pristine ? 0 : (idx < size0 ? idx : size0);
		if (rc != CFG_SUCCESS) { printf("legal call failed\n"); bad = 1; }
		else {
			if (cfg_size(cfg, "o") != want_size) { printf("size %u, expected %u\n", cfg_size(cfg, "o"), want_size); bad = 1; }
			else if (cfg_getnint(cfg, "o", at) != 4242) { printf("value not stored at index %u\n", at); bad = 1; }
			if (!pristine) for (i = 0; i < size0 && i < 8; i++) if (i != at && cfg_getnint(cfg, "o", i) != before[i]) { printf("another value changed (%u)\n", i); bad = 1; }
		}
	}
	if (bad) printf("  ^ %s option, %s, size %u; cfg_setnint(.., 4242, %u)\n", list ? "list" : "scalar", pristine ? "holding its default" : "explicitly set", size0, idx);
	cfg_free(cfg);
	return bad;
}
int main(void)
{
	/* the shape (scalar/list, default/explicit, count) is a compile-time constant of the proof unit and does not appear in
	 * the trace: the counterexample's index is replayed against every shape the public API can build */
	int bad = 0; unsigned idx = (unsigned)R_in_index;
	if (R_in_type != CFGT_INT) { printf("only integer options are replayed\n"); return 2; }
	for (int list = 0; list < 2; list++) for (int pristine = 0; pristine < 2; pristine++) for (unsigned n = 0; n < 4; n++) {
		bad |= one(list, pristine, n, idx);
		if (idx > 3) bad |= one(list, pristine, n, idx % 4);
	}
	return bad;
}
