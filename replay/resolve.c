/* native replay for the path-resolution units: the tree of the unit (RD_TREE_COMBO, RD_NSEC, RD_TREE_DEEP) is built through
 * the public API, the counterexample's path is resolved (a) by the by-path accessors and (b) step by step with the
 * single-level accessors (cfg_getopt on one name, cfg_opt_getnsec, cfg_opt_gettsec) - the statement's own oracle.
 * exit 1 = the two disagree (reproduced), 0 = they agree, 2 = this tree cannot be built through the API. */
#include <stdio.h>
#include <stdlib.h>
#include <string.h>
#include "confuse.h"
#ifndef RD_NSEC
#define RD_NSEC 1
#endif
#ifndef RD_TREE_COMBO
#define RD_TREE_COMBO 0
#endif
static void errf(cfg_t *c, const char *fmt, va_list ap) { (void)c; (void)fmt; (void)ap; }
/* one step with the single-level accessors; returns the section reached or NULL; *silent = not judged */
static cfg_t *step_section(cfg_t *cur, const char *name, const char *qual, int *silent)
{
	cfg_opt_t *opt = cfg_getopt(cur, name);          /* name holds no separator here */
	if (!opt || opt->type != CFGT_SEC) return NULL;
	if (!qual) return cfg_opt_getnsec(opt, 0);
	if (!(opt->flags & CFGF_MULTI)) return NULL;
	if (opt->flags & CFGF_TITLE) return cfg_opt_gettsec(opt, qual);
	{
		char *e; long v;
		if (!qual[0] || qual[0] == ' ' || qual[0] == '+' || qual[0] == '-' || (qual[0] == '0' && qual[1])) { *silent = 1; return NULL; }
		v = strtol(qual, &e, 10);
		if (*e) return NULL;
		return v >= 0 ? cfg_opt_getnsec(opt, (unsigned)v) : NULL;
	}
}
int main(void)
{
	char raw[] = R_in_path_INIT; char path[32]; unsigned n = 0; int silent = 0, bad = 0;
	int secflags = RD_TREE_COMBO == 0 ? 0 : RD_TREE_COMBO == 1 ? CFGF_MULTI : RD_TREE_COMBO == 2 ? (CFGF_MULTI | CFGF_TITLE) : RD_TREE_COMBO == 3 ? (CFGF_MULTI | CFGF_TITLE | CFGF_NOCASE) : CFGF_TITLE;
	int ctxflags = RD_TREE_COMBO == 2 ? CFGF_IGNORE_UNKNOWN : (RD_TREE_COMBO >= 3 ? CFGF_NOCASE : 0);
	cfg_opt_t topts[] = { CFG_INT("c", 0, CFGF_NONE), CFG_END() };
#ifdef RD_TREE_DEEP
	cfg_opt_t sopts[] = { CFG_INT("b", 0, CFGF_NONE), CFG_SEC("t", topts, CFGF_NONE), CFG_END() };
#else
	cfg_opt_t sopts[] = { CFG_INT("b", 0, CFGF_NONE), CFG_END() };
#endif
	cfg_opt_t opts[] = { CFG_INT("a", 0, CFGF_NONE), CFG_SEC("s", sopts, secflags), CFG_END() };
	cfg_t *cfg = cfg_init(opts, ctxflags);
	(void)topts;
	cfg_set_error_function(cfg, errf);
	while (n < sizeof raw && raw[n]) { path[n] = raw[n]; n++; } path[n] = 0;
	/* instances */
	if (secflags & CFGF_TITLE) {
#if defined(R_in_ttl_INIT)
		char tt[] = R_in_ttl_INIT;      /* flattened [i][2] */
		for (int i = 0; i < RD_NSEC; i++) { char t[2] = { tt[2 * i], 0 }; if (!t[0]) return 2; if (!cfg_addtsec(cfg, "s", t) && !(secflags & CFGF_MULTI)) {} }
#else
		if (RD_NSEC > 0) return 2;
#endif
		if (!(secflags & CFGF_MULTI) && RD_NSEC != (int)cfg_size(cfg, "s")) { printf("tree not buildable (single titled section)\n"); return 2; }
	} else if (secflags & CFGF_MULTI) {
		for (int i = 0; i < RD_NSEC; i++) cfg_parse_buf(cfg, "s { }\n");
	} else if (RD_NSEC != 1) { printf("a single section always has its one instance\n"); return 2; }
	if ((int)cfg_size(cfg, "s") != RD_NSEC) { printf("tree has %u instances, unit had %d\n", cfg_size(cfg, "s"), RD_NSEC); return 2; }
	printf("path bytes:"); for (unsigned i = 0; i < n; i++) printf(" %02x", (unsigned char)path[i]); printf("\n");
	/* (b) step by step */
	{
		cfg_t *cur = cfg; char *p = path; cfg_opt_t *want_opt = NULL; cfg_t *want_sec = NULL; int resolved_sec = 0;
		for (;;) {
			size_t l = strcspn(p, "|="); char name[32], qual[32], *q = NULL;
			if (p[l] == 0) { want_opt = l ? cfg_getopt(cur, p) : NULL; break; }
			if (l == 0) { want_opt = NULL; break; }
			memcpy(name, p, l); name[l] = 0; p += l;
			if (*p == '=') {
				size_t ql; p++;
				if (*p == '\'') { silent = 1; break; }              /* quoted qualifiers: left to the proof unit's oracle */
				ql = strcspn(p, "|"); if (!ql) { cur = NULL; break; }
				memcpy(qual, p, ql); qual[ql] = 0; q = qual; p += ql;
			}
			cur = step_section(cur, name, q, &silent);
			if (!cur || silent) break;
			if (*p == 0) { resolved_sec = 1; want_sec = cur; break; }
			p++;
			if (*p == '|') { silent = 1; break; }
			if (*p == 0) { cur = NULL; break; }
		}
		if (silent) { printf("path form not judged\n"); cfg_free(cfg); return 2; }
		{
			cfg_opt_t *got_opt = cfg_getopt(cfg, path); cfg_t *got_sec = cfg_getsec(cfg, path);
			if (!resolved_sec && cur && got_opt != want_opt) { printf("cfg_getopt(path) = %p, step by step = %p\n", (void *)got_opt, (void *)want_opt); bad = 1; }
			if (!cur && got_opt) { printf("cfg_getopt resolves a path that step-by-step navigation does not\n"); bad = 1; }
			if (resolved_sec && got_sec != want_sec) { printf("cfg_getsec(path) = %p, step by step = %p\n", (void *)got_sec, (void *)want_sec); bad = 1; }
			if (!resolved_sec && got_sec) { printf("cfg_getsec resolves a path that does not name a section step by step\n"); bad = 1; }
		}
	}
	cfg_free(cfg);
	return bad;
}
