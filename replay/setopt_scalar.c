/* native replay of the cfg_setopt() scalar-arm units through the public API: an explicitly set scalar option,
 * then cfg_setopt(cfg, opt, token) with the entry errno of the counterexample; the same ensures clauses as the
 * proof unit are evaluated on the real library.  exit 1 = violation reproduced, 0 = not reproduced. */
#include <stdio.h>
#include <string.h>
#include <errno.h>
#include "confuse.h"
#include "num_spec.h"
static int ndiag;
static void errf(cfg_t *c, const char *fmt, va_list ap) { (void)c; (void)fmt; (void)ap; ndiag++; }
#ifndef R_in_errno
#define R_in_errno 0
#endif
int main(void)
{
	char raw[] = R_in_tok_INIT;
	char tok[sizeof raw + 1];
	int bad = 0;
	memcpy(tok, raw, sizeof raw); tok[sizeof raw] = 0;
#if defined(R_UNIT_setopt_bool_concrete)
	cfg_opt_t opts[] = { CFG_BOOL("o", cfg_false, CFGF_NONE), CFG_END() };
#elif defined(R_UNIT_setopt_float_abstract)
	cfg_opt_t opts[] = { CFG_FLOAT("o", 0.5, CFGF_NONE), CFG_END() };
#else
	cfg_opt_t opts[] = { CFG_INT("o", 0, CFGF_NONE), CFG_END() };
#endif
	cfg_t *cfg = cfg_init(opts, CFGF_NONE);
	cfg_opt_t *opt = cfg_getopt(cfg, "o");
	cfg_value_t *r;
	cfg_set_error_function(cfg, errf);
	printf("token bytes:"); for (size_t i = 0; tok[i]; i++) printf(" %02x", (unsigned char)tok[i]); printf("  entry errno=%d\n", (int)R_in_errno);
#if defined(R_UNIT_setopt_bool_concrete)
	cfg_setbool(cfg, "o", cfg_true);
	errno = (int)R_in_errno;
	r = cfg_setopt(cfg, opt, tok);
	{
		int want = spec_bool(tok);
		if (want != -1 && (!r || cfg_getbool(cfg, "o") != (cfg_bool_t)want)) { printf("boolean word not accepted with its value\n"); bad = 1; }
		if (want == -1 && r) { printf("non-boolean token accepted\n"); bad = 1; }
		if (!r && ndiag == 0) { printf("rejected without diagnostic\n"); bad = 1; }
		if (!r && (cfg_getbool(cfg, "o") != cfg_true || cfg_size(cfg, "o") != 1)) { printf("rejected but option changed\n"); bad = 1; }
	}
#elif defined(R_UNIT_setopt_float_abstract)
	cfg_setfloat(cfg, "o", 1.25);
	errno = (int)R_in_errno;
	r = cfg_setopt(cfg, opt, tok);
	{
		/* native oracle for the abstract unit: glibc strtod itself, full match with >= 1 converted byte and no range error */
		char *e; double d; int full, range;
		errno = 0; d = strtod(tok, &e); range = errno == ERANGE; full = (e != tok && *e == 0);
		if (full && !range && !r) { printf("complete in-range float numeral rejected (entry errno %d)\n", (int)R_in_errno); bad = 1; }
		if ((!full || range) && r) { printf("token that is not a complete in-range float numeral accepted as %f\n", cfg_getfloat(cfg, "o")); bad = 1; }
		if (r && full && cfg_getfloat(cfg, "o") != d) { printf("wrong value\n"); bad = 1; }
		if (!r && ndiag == 0) { printf("rejected without diagnostic\n"); bad = 1; }
		if (!r && (cfg_getfloat(cfg, "o") != 1.25 || cfg_size(cfg, "o") != 1)) { printf("rejected but option changed\n"); bad = 1; }
	}
#else
	cfg_setint(cfg, "o", 77);
	errno = (int)R_in_errno;
	r = cfg_setopt(cfg, opt, tok);
	{
		long want = 0; int verdict = spec_int(tok, &want);
		printf("spec verdict %d (1 accept, 0 reject, 2 silent) want %ld; library %s value %ld\n", verdict, want, r ? "accepted" : "rejected", cfg_getint(cfg, "o"));
		if (verdict == 1 && !r) { printf("numeral rejected\n"); bad = 1; }
		if (verdict == 1 && r && cfg_getint(cfg, "o") != want) { printf("wrong value\n"); bad = 1; }
		if (verdict == 0 && r) { printf("non-numeral accepted\n"); bad = 1; }
		if (!r && ndiag == 0) { printf("rejected without diagnostic\n"); bad = 1; }
		if (!r && (cfg_getint(cfg, "o") != 77 || cfg_size(cfg, "o") != 1)) { printf("rejected but option changed\n"); bad = 1; }
	}
#endif
	cfg_free(cfg);
	return bad;
}
