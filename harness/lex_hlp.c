/* L-HLP (DESIGN 4): the hand-written scanner helpers around sources and includes, and the end-of-input actions
 * (C08 C13 C07 C17 C06 C02).  flex's buffer stack, fopen/fclose and the two path resolvers are contract carriers. */
#include "lex_common.h"

extern int g_buf_depth, g_buf_creates, g_buf_pushes, g_buf_pops; extern FILE *g_buf_created_for;

/* ---- file carriers: a ghost set of open handles */
static FILE g_file_obj[3]; static _Bool g_file_open[3]; static int g_fopen_calls, g_fclose_calls; static const char *g_fopen_name;
_Bool in_fopen_ok, in_is_directory;
FILE *fopen(const char *name, const char *mode)
{
	(void)mode;
	g_fopen_calls++; g_fopen_name = name;
	if (!in_fopen_ok) { errno = ENOENT; return NULL; }
	g_file_open[2] = 1;
	return &g_file_obj[2];
}
int fclose(FILE *f)
{
	g_fclose_calls++;
	for (int i = 0; i < 3; i++) if (f == &g_file_obj[i]) { __CPROVER_assert(g_file_open[i], "C07: a file handle is closed at most once"); g_file_open[i] = 0; }
	return 0;
}
char *strerror(int e) { (void)e; return (char *)"error"; }
/* ---- resolvers (enforced by the search-path units, C17): ghost verdict */
static int g_sp_calls, g_te_calls; static cfg_searchpath_t *g_sp_path; static const char *g_sp_name, *g_te_name;
_Bool in_resolved;
static char *resolved_name(void) { char *r; if (!in_resolved) return NULL; r = malloc(2); __CPROVER_assume(r != NULL); r[0] = 'r'; r[1] = 0; return r; }
char *cfg_searchpath(cfg_searchpath_t *p, const char *file) { g_sp_calls++; g_sp_path = p; g_sp_name = file; return resolved_name(); }
char *cfg_tilde_expand(const char *filename) { g_te_calls++; g_te_name = filename; return resolved_name(); }

static void reset_ghost(void)
{
	g_buf_depth = 1; g_buf_creates = g_buf_pushes = g_buf_pops = 0;
	g_fopen_calls = g_fclose_calls = 0; g_sp_calls = g_te_calls = 0; g_diag = 0;
	for (int i = 0; i < 3; i++) g_file_open[i] = 0;
}

/* contract::cfg_scan_fp_end(): the scanner is quiescent afterwards whatever state the scan ended in - top-level
 * context, no scratch buffer (released once), exactly one source popped (C08 C07) */
void h_scan_end(void)
{
	int ctx = nondet_int(); int shape = nondet_int();
	__CPROVER_assume(ctx >= 0 && ctx <= 3 && shape >= 0 && shape <= 4);
	lex_ctx(ctx); reset_ghost();
	if (shape == 0) lex_scratch(0); else if (shape == 1) lex_scratch(1); else if (shape == 2) lex_scratch(2); else if (shape == 3) lex_scratch(3); else lex_scratch(4);
	cfg_scan_fp_end();
	CHECK("C08,C03", LEX_CTX_NOW == LC_TOP, "when a scan ends the scanner is back at top level, wherever the text stopped (inside a string, a comment, after an error)");
	CHECK("C08,C07", cfg_qstring == NULL && qstring_index == 0 && qstring_len == 0, "when a scan ends the scratch buffer is released and its bookkeeping cleared");
	CHECK("C08,C13", g_buf_pops == 1 && g_buf_pushes == 0, "when a scan ends exactly one source is popped");
	CANARY("scan_end");
}
void h_scan_begin(void)
{
	reset_ghost();
	cfg_scan_fp_begin(&g_file_obj[0]);
	CHECK("C08,C13", g_buf_creates == 1 && g_buf_created_for == &g_file_obj[0] && g_buf_pushes == 1 && g_buf_pops == 0, "starting a scan pushes exactly one new source reading from the given stream");
	CANARY("scan_begin");
}

/* contract::cfg_lexer_include(cfg, name)   (C13 C17 C07 C06) */
int in_stackptr; _Bool in_has_path;
void h_lexer_include(void)
{
	int rc; char *oldname; int oldline; static char name0[2] = "n";
	lex_ctx(LC_TOP); reset_ghost(); lex_scratch(0);
	in_stackptr = nondet_int(); __CPROVER_assume(in_stackptr >= 0 && in_stackptr <= MAX_INCLUDE_DEPTH);
	cfg_include_stack_ptr = in_stackptr;
	in_has_path = nondet_bool(); in_resolved = nondet_bool(); in_fopen_ok = nondet_bool(); in_is_directory = nondet_bool();
	/* the search path only ever resolves to regular files (contract::cfg_searchpath); fopen() itself opens directories */
	if (in_has_path) in_is_directory = 0;
	h_cfg.path = in_has_path ? (cfg_searchpath_t *)&g_file_obj[1] : NULL;
	oldname = malloc(2); __CPROVER_assume(oldname != NULL); oldname[0] = 'o'; oldname[1] = 0;
	h_cfg.filename = oldname; oldline = h_cfg.line;

	rc = cfg_lexer_include(&h_cfg, name0);

	if (in_stackptr >= MAX_INCLUDE_DEPTH) {
		CHECK("C13,C02", rc == CFG_PARSE_ERROR && g_diag >= 1, "nesting beyond the include limit is a reported parse error");
		CHECK("C13", cfg_include_stack_ptr == in_stackptr && h_cfg.filename == oldname && h_cfg.line == oldline && g_fopen_calls == 0 && g_buf_pushes == 0, "a refused include changes nothing");
	} else {
		CHECK("C17", in_has_path ? (g_sp_calls == 1 && g_te_calls == 0 && g_sp_path == h_cfg.path && g_sp_name == name0) : (g_te_calls == 1 && g_sp_calls == 0 && g_te_name == name0),
		      "an included name is resolved like a top-level file name: through the search path when there is one, else by tilde expansion");
		if (!in_resolved || !in_fopen_ok) {
			CHECK("C13,C06", rc == CFG_PARSE_ERROR && g_diag >= 1, "a missing or unreadable include target is a reported parse error");
			CHECK("C13,C08,C06", cfg_include_stack_ptr == in_stackptr && h_cfg.filename == oldname && h_cfg.line == oldline && g_buf_pushes == 0, "a failed include costs no include capacity and leaves file name and line alone");
			CHECK("C07", !g_file_open[2], "a failed include leaves no file open");
		} else if (in_is_directory) {
			KFCHECK("C13-include-directory-not-refused", "C13,C02", rc == CFG_PARSE_ERROR && g_diag >= 1, "an include target that is a directory is a reported parse error");
			free(h_cfg.filename);
		} else {
			CHECK("C13", rc == CFG_SUCCESS && cfg_include_stack_ptr == in_stackptr + 1, "a successful include takes one include level");
			CHECK("C13,C06", cfg_include_stack[in_stackptr].filename == oldname && cfg_include_stack[in_stackptr].line == (unsigned)oldline && cfg_include_stack[in_stackptr].fp == &g_file_obj[2],
			      "the including source's file name, line and the new handle are saved");
			CHECK("C13,C06", h_cfg.line == 1 && h_cfg.filename != NULL && h_cfg.filename != oldname && h_cfg.filename[0] == 'r', "the included source is current: resolved name, line 1");
			CHECK("C13", g_buf_creates == 1 && g_buf_created_for == &g_file_obj[2] && g_buf_pushes == 1, "the included source is pushed once");
			CHECK("C06", g_diag == 0, "a successful include delivers no diagnostic");
			free(h_cfg.filename);
		}
	}
	free(oldname);
	CANARY("lexer_include");
}

/* contract of the end-of-input actions (C13 C08 C06 C07):
 *   inside '...'                       -> a diagnostic and the error token
 *   elsewhere, no include pending      -> the end-of-input token
 *   an include pending that this scan did not open (handle differs) -> the end-of-input token, nothing popped
 *   our include ends                   -> its name released, the saved name/line restored, ITS handle closed (once),
 *                                         one source popped, scanning continues at top level */
_Bool in_ours;
void h_eof_action(void)
{
	int ctx = nondet_int(), rc; char *incname, *savedname; int savedline;
	__CPROVER_assume(ctx >= 0 && ctx <= 3);
	lex_ctx(ctx); reset_ghost(); lex_scratch(0);
	in_stackptr = nondet_int(); __CPROVER_assume(in_stackptr >= 0 && in_stackptr <= MAX_INCLUDE_DEPTH);
	cfg_include_stack_ptr = in_stackptr;
	in_ours = nondet_bool();
	incname = malloc(2); __CPROVER_assume(incname != NULL); incname[0] = 'i'; incname[1] = 0;
	savedname = malloc(2); __CPROVER_assume(savedname != NULL); savedname[0] = 's'; savedname[1] = 0;
	savedline = nondet_int(); __CPROVER_assume(savedline >= 0 && savedline < 1000000);
	h_cfg.filename = incname;
	g_file_open[0] = 1; g_file_open[1] = 1;
	cfg_yyin = &g_file_obj[0];
	if (in_stackptr > 0) {
		cfg_include_stack[in_stackptr - 1].fp = in_ours ? &g_file_obj[0] : &g_file_obj[1];
		cfg_include_stack[in_stackptr - 1].filename = savedname;
		cfg_include_stack[in_stackptr - 1].line = (unsigned)savedline;
	}
	rc = cfgv_action_eof(ctx, &h_cfg);
	if (ctx == LC_SQ) {
		CHECK("C03,C06", rc == 0 && g_diag >= 1, "end of input inside a single-quoted string is rejected with a diagnostic");
		CHECK("C13,C07", cfg_include_stack_ptr == in_stackptr && g_fclose_calls == 0 && g_buf_pops == 0, "the rejection touches neither the include stack nor any handle");
	} else if (in_stackptr == 0 || !in_ours) {
		CHECK("C13,C08", rc == EOF && cfg_include_stack_ptr == in_stackptr && g_fclose_calls == 0 && g_buf_pops == 0 && h_cfg.filename == incname, "end of a source that is not one of our includes: end-of-input token, nothing popped or closed");
		CHECK("C06", g_diag == 0, "end of input delivers no diagnostic by itself");
	} else {
		CHECK("C13", rc == CFGV_CONTINUE && cfg_include_stack_ptr == in_stackptr - 1, "end of an included source: scanning continues in the including source, one include level is given back");
		CHECK("C13,C06", h_cfg.filename == savedname && h_cfg.line == savedline, "the including source's own file name and line numbering are restored");
		CHECK("C07,C13", g_fclose_calls == 1 && !g_file_open[0] && g_file_open[1], "exactly the handle the include opened is closed, once");
		CHECK("C13,C08", g_buf_pops == 1 && LEX_CTX_NOW == LC_TOP, "the included source is popped and the scanner is at top level");
		incname = NULL;      /* released by the action (leak / double free: CBMC's obligations) */
	}
	if (incname) free(incname);
	free(savedname);
	CANARY("eof_action");
}

/* history of three calls (C08 C13 C07): a parse starts, an include succeeds, the parse is aborted inside the included file
 * (cfg_parse_fp then calls cfg_scan_fp_end() once).  Afterwards nothing of the include may be left: include level, file
 * handle, pushed source.  Recorded finding: cfg_scan_fp_end() pops one source and knows nothing about the include stack. */
void h_abort_inside_include(void)
{
	int rc; char *outer; static char name0[2] = "n";
	lex_ctx(LC_TOP); reset_ghost(); lex_scratch(0);
	cfg_include_stack_ptr = 0; g_buf_depth = 0;
	outer = malloc(2); __CPROVER_assume(outer != NULL); outer[0] = 'o'; outer[1] = 0; h_cfg.filename = outer;
	in_has_path = 0; in_resolved = 1; in_fopen_ok = 1; in_is_directory = 0; h_cfg.path = NULL;
	cfg_scan_fp_begin(&g_file_obj[0]);                 /* cfg_parse_fp: the top-level source */
	rc = cfg_lexer_include(&h_cfg, name0);             /* include("n") succeeds */
	__CPROVER_assume(rc == CFG_SUCCESS);
	cfg_scan_fp_end();                                 /* the parse is rejected inside the included file: cfg_parse_fp cleans up */
	KFCHECK("C08-abort-inside-include-leaves-entry", "C08,C13,C07", cfg_include_stack_ptr == 0 && !g_file_open[2] && g_buf_depth == 0,
		"a parse aborted inside an included file gives back the include level, closes the included file and pops both sources");
	if (h_cfg.filename != outer) free(h_cfg.filename);
	free(outer);
	CANARY("abort_inside_include");
}
