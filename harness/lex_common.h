/* harness/lex_common.h - shared by the scanner units (TU = the flex output of this run + extracted actions) */
#ifndef CFGV_LEX_COMMON_H
#define CFGV_LEX_COMMON_H
#include <stdarg.h>
#include "lex_spec.h"
#include "lex_witness.h"

/* ---- what the scanner TU refers to outside itself: contract carriers */
char *cfg_yylval;
static int g_diag; static cfg_t *g_diag_cfg; static int g_diag_line;
void cfg_error(cfg_t *cfg, const char *fmt, ...)
{
	(void)fmt;
	if (g_diag < 1000) g_diag++;
	g_diag_cfg = cfg; g_diag_line = cfg ? cfg->line : -1;
}
char *dgettext(const char *d, const char *m) { (void)d; return (char *)m; }

/* isspace() of glibc is a table lookup through __ctype_b_loc(): C-locale table (assumed contract) */
static const unsigned short cfgv_ctype_tab[384] = {
	[128 + '\t'] = (unsigned short)_ISspace, [128 + '\n'] = (unsigned short)_ISspace, [128 + '\v'] = (unsigned short)_ISspace,
	[128 + '\f'] = (unsigned short)_ISspace, [128 + '\r'] = (unsigned short)_ISspace, [128 + ' '] = (unsigned short)_ISspace,
};
static const unsigned short *cfgv_ctype_ptr = cfgv_ctype_tab + 128;
const unsigned short **__ctype_b_loc(void) { return &cfgv_ctype_ptr; }

/* sscanf as the scanner uses it: "%o" / "%x" on a short digit string (assumed contract: C11 7.21.6.2) */
int sscanf(const char *s, const char *fmt, ...)
{
	va_list ap; unsigned v = 0, base; unsigned *out; int n = 0;
	__CPROVER_assert(fmt[0] == '%' && (fmt[1] == 'o' || fmt[1] == 'x') && fmt[2] == 0, "BOUND: sscanf carrier knows %o and %x only");
	base = fmt[1] == 'o' ? 8 : 16;
	va_start(ap, fmt); out = va_arg(ap, unsigned *); va_end(ap);
	for (; n < 8; n++) {
		unsigned char c = (unsigned char)s[n]; unsigned d;
		if (c >= '0' && c <= '9') d = c - '0'; else if (c >= 'a' && c <= 'f') d = c - 'a' + 10; else if (c >= 'A' && c <= 'F') d = c - 'A' + 10; else break;
		if (d >= base) break;
		v = v * base + d;
	}
	if (n == 0) return 0;
	*out = v;
	return 1;
}

/* strtoul / strtol as a scanner action may use them instead of sscanf on a short digit string (assumed contract: C11
 * 7.22.1.4; base 0 selects by prefix: 0x hexadecimal, 0 octal, else decimal; at most 10 digits are looked at) */
unsigned long strtoul(const char *s, char **end, int base)
{
	unsigned long v = 0; unsigned n = 0, i = 0; _Bool neg = 0;
	while (s[i] == ' ' || (s[i] >= '\t' && s[i] <= '\r')) { i++; if (i > 4) break; }
	if (s[i] == '+') i++; else if (s[i] == '-') { neg = 1; i++; }
	if ((base == 0 || base == 16) && s[i] == '0' && (s[i + 1] == 'x' || s[i + 1] == 'X')) {
		unsigned char c = (unsigned char)s[i + 2];
		if ((c >= '0' && c <= '9') || (c >= 'a' && c <= 'f') || (c >= 'A' && c <= 'F')) { i += 2; base = 16; }
		else if (base == 0) base = 8;
	} else if (base == 0) base = s[i] == '0' ? 8 : 10;
	for (; n < 10; n++) {
		unsigned char c = (unsigned char)s[i + n]; unsigned d;
		if (c >= '0' && c <= '9') d = c - '0'; else if (c >= 'a' && c <= 'z') d = c - 'a' + 10; else if (c >= 'A' && c <= 'Z') d = c - 'A' + 10; else break;
		if (d >= (unsigned)base) break;
		v = v * (unsigned)base + d;
	}
	if (end) *end = (char *)(n ? s + i + n : s);
	return neg ? 0ul - v : v;
}
long strtol(const char *s, char **end, int base) { return (long)strtoul(s, end, base); }

/* getenv: ghost verdict - unset, or a value of at most 2 arbitrary bytes; the name asked for is recorded */
static char g_env_value[3]; static _Bool g_env_set; static char g_env_asked[8]; static int g_env_calls;
char *getenv(const char *name)
{
	g_env_calls++;
	for (int i = 0; i < 7; i++) { g_env_asked[i] = name[i]; if (!name[i]) break; }
	g_env_asked[7] = 0;
	return g_env_set ? g_env_value : NULL;
}

/* stdout must never be written (C02): the default ECHO action calls fwrite */
static int g_stdout_writes;
size_t fwrite(const void *p, size_t sz, size_t n, FILE *f) { (void)p; (void)sz; (void)f; g_stdout_writes++; return n; }

/* ---- scanner state builders */
static cfg_t h_cfg;
int in_line0;
static void lex_ctx(int ctx)
{
	memset(&h_cfg, 0, sizeof h_cfg);
	h_cfg.name = "root";
	in_line0 = nondet_int();
	__CPROVER_assume(in_line0 >= 0 && in_line0 < 1000000);
	h_cfg.line = in_line0;
	yy_start = 1 + 2 * ctx;
	g_diag = 0; g_stdout_writes = 0; g_env_calls = 0;
}
#define LEX_CTX_NOW ((yy_start - 1) / 2)

/* the scratch buffer in a well-formed state, write index a CONSTANT per shape (a symbolic index makes every qputc()
 * a possible reallocation and the unit runs out of memory):
 *   0 never allocated    1 one 32(+1)-byte block, empty    2 the block with 7 bytes accumulated
 *   3 one byte left before the block grows    4 the block is full: the next byte grows it */
unsigned in_qidx; char in_qold;
static char *g_qbuf0;
static void lex_scratch(int shape)
{
	if (shape == 0) { cfg_qstring = NULL; qstring_len = 0; qstring_index = 0; in_qidx = 0; }
	else {
		cfg_qstring = malloc(33); __CPROVER_assume(cfg_qstring != NULL);
		qstring_len = 32;
		in_qidx = shape == 1 ? 0 : shape == 2 ? 7 : shape == 3 ? 31 : 32;
		qstring_index = in_qidx;
	}
	g_qbuf0 = cfg_qstring;
}
/* the token text: n bytes, NUL-terminated like YY_DO_BEFORE_ACTION leaves it */
#ifndef TOKN
#define TOKN 4
#endif
char in_tok[TOKN + 2]; unsigned in_toklen;
static void lex_token(int ctx, int form)
{
	in_toklen = nondet_uint();
	__CPROVER_assume(in_toklen <= TOKN);
	for (unsigned i = 0; i < TOKN + 1; i++) { in_tok[i] = nondet_char(); if (i >= in_toklen) in_tok[i] = 0; }
	in_tok[TOKN + 1] = 0;
	for (unsigned i = 0; i < TOKN; i++) if (i < in_toklen) __CPROVER_assume(in_tok[i] != 0);
	__CPROVER_assume(spec_lex_member(ctx, (const unsigned char *)in_tok, in_toklen, form));
	cfg_yytext = in_tok; cfg_yyleng = (int)in_toklen;
}
/* run every rule the witness pairs with this form; all must behave the same */
#define FOR_RULES_OF(form, stmt) do { for (int r_ = 1; r_ <= CFGV_NRULES; r_++) if (cfgv_rf[r_][form]) { int rule_ = r_; stmt; } } while (0)
#endif
