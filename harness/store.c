/* Units on the value store: cfg_opt_getval, cfg_addval, typed setters, cfg_opt_setnstr, cfg_opt_setcomment,
 * cfg_free_value, cfg_opt_setmulti, cfg_addlist/cfg_setlist, section removal.  (C09 C10 C07 C18 C14)
 * Style S2; the option is built in EVERY well-formed state of <= NV values:
 *   nvalues = n <= NV, values = exact-size array of n owned slots (n == 0: NULL or a left-over empty array),
 *   flags arbitrary, annotation NULL or owned string, strings NULL or owned, sections owned fake contexts.
 */
#include "ref_strings.h"
#include "common.h"
#include "ghost.h"

#ifndef NV
#define NV 3
#endif

int in_flags, in_type;
unsigned in_n, in_index;
_Bool in_simple;

typedef struct {
	unsigned nvalues; cfg_value_t **values; cfg_flag_t flags; char *comment;
	cfg_value_t *slot[NV + 2]; long pay[NV + 2];
} snap_t;

static void snap(const cfg_opt_t *o, snap_t *s)
{
	s->nvalues = o->nvalues; s->values = o->values; s->flags = o->flags; s->comment = o->comment;
	for (unsigned i = 0; i < NV + 2; i++) {
		s->slot[i] = (i < o->nvalues) ? o->values[i] : NULL;
		s->pay[i] = (i < o->nvalues) ? o->values[i]->number : 0;
	}
}
/* bit-for-bit the same option state: same count, same slots in the same order with the same payload, same
 * annotation pointer, same flags */
static _Bool same(const cfg_opt_t *o, const snap_t *s)
{
	if (o->nvalues != s->nvalues || o->values != s->values || o->flags != s->flags || o->comment != s->comment)
		return 0;
	for (unsigned i = 0; i < NV + 2; i++)
		if (i < o->nvalues && (o->values[i] != s->slot[i] || o->values[i]->number != s->pay[i]))
			return 0;
	return 1;
}

/* the same values in the same slots, same count, annotation and markers (the slot ARRAY may have been moved by a realloc
 * that succeeded before a later allocation failed) */
static _Bool same_content(const cfg_opt_t *o, const snap_t *s)
{
	if (o->nvalues != s->nvalues || o->flags != s->flags || o->comment != s->comment)
		return 0;
	for (unsigned i = 0; i < NV + 2; i++)
		if (i < o->nvalues && (o->values[i] != s->slot[i] || o->values[i]->number != s->pay[i]))
			return 0;
	return 1;
}

static long g_simple_store;   /* target of a "simple" option */

static cfg_t *mk_fake_section(void)
{
	cfg_t *sec = cfgv_alloc(sizeof(cfg_t));
	memset(sec, 0, sizeof *sec);
	sec->title = nondet_bool() ? cfgv_string(1) : NULL;
	sec->path = nondet_bool() ? (cfg_searchpath_t *)&g_simple_store : NULL;   /* shared with the root, never owned */
	return sec;
}

/* type and count are CONSTANTS at every call site (the dispatchers below split the cases), so that symbolic
 * execution prunes the arms of the code under proof that belong to other option types (DESIGN 2.2) */
static int k_leftover; /* count 0: values == NULL (0) or a left-over empty slot array (1, e.g. after removing the last section) */
static int k_flags;   /* the option's flag word: a LITERAL chosen by FOR_EACH_FLAGS (a symbolic word keeps symbolic
                       * execution from pruning the RESET / LIST arms of the code under proof: 5 s -> 100 s) */
#define FL_DATA (CFGF_NOCASE | CFGF_NODEFAULT | CFGF_DEFINIT | CFGF_IGNORE_UNKNOWN | CFGF_DEPRECATED | CFGF_DROP | CFGF_COMMENTS | CFGF_MODIFIED | CFGF_KEYSTRVAL)
/* the combinations of the control bits RESET / LIST / MULTI the store functions branch on, alternately with all
 * other bits clear and all other bits set */
#define FOR_EACH_FLAGS(stmt) do { unsigned g_ = nondet_uint(); \
	if (g_ == 0) { k_flags = 0; stmt; } else if (g_ == 1) { k_flags = FL_DATA | CFGF_RESET; stmt; } \
	else if (g_ == 2) { k_flags = FL_DATA | CFGF_LIST; stmt; } else if (g_ == 3) { k_flags = CFGF_LIST | CFGF_RESET; stmt; } \
	else if (g_ == 4) { k_flags = CFGF_MULTI; stmt; } else { k_flags = FL_DATA | CFGF_MULTI | CFGF_LIST | CFGF_RESET; stmt; } } while (0)
#define FOR_RESET_FLAGS(stmt) do { if (nondet_bool()) { k_flags = FL_DATA; stmt; } else { k_flags = CFGF_RESET | CFGF_LIST; stmt; } } while (0)

static void mk_opt(cfg_opt_t *o, cfg_type_t type, unsigned n, _Bool allow_simple)
{
	memset(o, 0, sizeof *o);
	o->name = "o";
	o->type = type;
	in_type = type;
	in_flags = k_flags;
	o->flags = in_flags;
	in_n = n;
	in_simple = allow_simple;      /* constant at the call site: a "simple" option stores into the user's variable */
	if (in_simple)
		o->simple_value.number = &g_simple_store;
	o->nvalues = in_n;
	if (in_n == 0) {
		/* an emptied option keeps its (now unused) slot array: constant choice k_leftover */
		o->values = k_leftover ? cfgv_alloc(sizeof(cfg_value_t *)) : NULL;
	} else {
		o->values = cfgv_alloc(in_n * sizeof(cfg_value_t *));
		for (unsigned i = 0; i < in_n; i++) {
			o->values[i] = cfgv_alloc(sizeof(cfg_value_t));
			o->values[i]->number = nondet_long();
			if (type == CFGT_STR)
				o->values[i]->string = nondet_bool() ? cfgv_string(2) : NULL;
			else if (type == CFGT_SEC)
				o->values[i]->section = mk_fake_section();
		}
	}
	o->comment = nondet_bool() ? cfgv_string(2) : NULL;
}

/* release what the harness built (so that --memory-leak-check speaks only about the function under proof) */
static void drop_opt(cfg_opt_t *o)
{
	for (unsigned i = 0; i < o->nvalues; i++) {
		if (o->type == CFGT_STR && o->values[i]->string) free(o->values[i]->string);
		if (o->type == CFGT_SEC && o->values[i]->section) { if (o->values[i]->section->title) free(o->values[i]->section->title); free(o->values[i]->section); }
		free(o->values[i]);
	}
	if (o->values) free(o->values);
	if (o->comment) free(o->comment);
	o->values = NULL; o->nvalues = 0; o->comment = NULL;
}

/* case split helpers: every shape parameter reaches the body as a CONSTANT (count, default marker, list-ness,
 * index), so the shape after the call is constant too and the clean-up at the end stays cheap */
#define SPLIT_IDX(body, ...) do { unsigned q_ = nondet_uint(); if (q_ == 0) body(__VA_ARGS__, 0u); else if (q_ == 1) body(__VA_ARGS__, 1u); \
	else if (q_ == 2) body(__VA_ARGS__, 2u); else if (q_ == 3) body(__VA_ARGS__, 3u); else body(__VA_ARGS__, 9u); } while (0)
/* case split over the number of values held (0..NV) */
#ifdef SHAPE_N      /* one CBMC process per count */
#define FOR_EACH_COUNT(call) do { if (SHAPE_N == 0 && nondet_bool()) { k_leftover = 1; call(0); } else { k_leftover = 0; call(SHAPE_N); } } while (0)
#else
#define FOR_EACH_COUNT(call) do { unsigned c_ = nondet_uint(); \
	if (c_ == 0) { call(0); } else if (c_ == 1) { call(1); } else if (c_ == 2 && NV >= 2) { call(2); } else if (NV >= 3) { call(3); } } while (0)
#endif

/* ------------------------------------------------------------------------------------------------ cfg_opt_getval
 * contract::cfg_opt_getval(opt, index)
 *   index != 0 on a non-list, non-multi option      -> NULL, errno EINVAL, option untouched (C09/C10 "illegal index")
 *   simple option                                   -> the user's storage, option untouched
 *   otherwise: a still-pristine default (RESET) is dropped first (RESET cleared);
 *              index < count -> that slot; index >= count -> ONE slot appended (zeroed), older slots kept in order
 *   allocation failure -> NULL, the option stays well-formed (count slots, all owned)
 */
static void b_opt_getval(cfg_type_t t, unsigned n, _Bool simple, unsigned idx)
{
	cfg_opt_t o; snap_t s; cfg_value_t *r;
	mk_opt(&o, t, n, simple);
	in_index = idx;
	snap(&o, &s);

	r = cfg_opt_getval(&o, in_index);

#ifdef CFGV_NO_ALLOC_FAILURE
	if (in_index == 0 || (in_flags & (CFGF_LIST | CFGF_MULTI))) CHECK("C09", r != NULL, "a legal index resolves to a slot (no allocation failure in this unit)");
#endif
	if (in_index != 0 && !(in_flags & CFGF_LIST) && !(in_flags & CFGF_MULTI)) {
		CHECK("C09,C10", r == NULL, "an index beyond a scalar is refused");
		CHECK("C09,C10", same(&o, &s), "a refused index leaves values, count, annotation and default/modified markers untouched");
	} else if (in_simple) {
		CHECK("C09", r == (cfg_value_t *)&g_simple_store && same(&o, &s), "a simple option resolves to the user's storage");
	} else if (in_flags & CFGF_RESET) {
		CHECK("C09", !(o.flags & CFGF_RESET), "touching a pristine default drops the default marker");
		CHECK("C09,C18", r == NULL || (o.nvalues == 1 && r == o.values[0]), "after dropping the defaults the new value is the only one");
		CHECK("C18", r != NULL || o.nvalues == 0, "allocation failure after dropping defaults leaves an empty, well-formed option");
	} else if (in_index < in_n) {
		CHECK("C09", r == s.slot[in_index] && o.nvalues == in_n, "an existing index resolves to its slot, count unchanged");
	} else {
		CHECK("C09,C18", r == NULL || (o.nvalues == in_n + 1 && r == o.values[in_n]), "an index past the end appends exactly one slot");
		CHECK("C18", r != NULL || o.nvalues == in_n, "allocation failure keeps the count");
		for (unsigned i = 0; i < NV; i++)
			if (i < in_n)
				CHECK("C09,C18", o.values[i] == s.slot[i] && o.values[i]->number == s.pay[i], "appending keeps the older values in order");
	}
}
void h_opt_getval(void)
{
#define CALL(n) do { if (nondet_bool()) b_opt_getval(CFGT_INT, n, 0, nondet_uint()); else b_opt_getval(CFGT_PTR, n, 0, nondet_uint()); } while (0)
	if (nondet_bool()) FOR_EACH_FLAGS(b_opt_getval(CFGT_INT, 0, 1, nondet_uint())); else
	FOR_EACH_FLAGS(FOR_EACH_COUNT(CALL));
#undef CALL
	CANARY("opt_getval");
}

/* ------------------------------------------------------------------------------------------------ typed setters
 * contract::cfg_opt_setnint(opt, value, index)  (float / bool alike)
 *   opt NULL or of another type -> CFG_FAIL, nothing changes
 *   cfg_opt_getval refuses      -> CFG_FAIL
 *   else value stored in the slot cfg_opt_getval designates, MODIFIED set, CFG_SUCCESS
 */
static void b_opt_setnint(cfg_type_t t, unsigned n, _Bool simple, unsigned idx)
{
	cfg_opt_t o; snap_t s; int rc;
	long v = nondet_long();
	mk_opt(&o, t, n, simple);
	in_index = idx;
	snap(&o, &s);
	g_simple_store = 0;

	rc = cfg_opt_setnint(&o, v, in_index);

	CHECK("C09,C10", t == CFGT_INT || (rc == CFG_FAIL && same(&o, &s)), "an integer setter on an option of another type fails without effect");
	if (t == CFGT_INT) {
		_Bool legal = in_index == 0 || (in_flags & (CFGF_LIST | CFGF_MULTI));
		CHECK("C09,C10", legal || (rc == CFG_FAIL && same(&o, &s)), "index > 0 on a scalar fails without effect");
		if (rc == CFG_SUCCESS) {
			CHECK("C09", o.flags & CFGF_MODIFIED, "a successful setter marks the option modified");
			if (in_simple) CHECK("C09", g_simple_store == v, "simple option: the user's variable holds the value");
			else if (in_flags & CFGF_RESET) CHECK("C09", o.nvalues == 1 && o.values[0]->number == v, "setting a pristine default replaces it by the single new value");
			else if (in_index < in_n) CHECK("C09", o.nvalues == in_n && o.values[in_index]->number == v, "setting index i overwrites value i only");
			else CHECK("C09", o.nvalues == in_n + 1 && o.values[in_n]->number == v, "setting past the end appends the value");
			for (unsigned i = 0; i < NV; i++)
				if (!in_simple && !(in_flags & CFGF_RESET) && i < in_n && i != in_index)
					CHECK("C09", o.values[i] == s.slot[i] && o.values[i]->number == s.pay[i], "the other values keep their place and content");
		}
	}
	if (t == CFGT_INT && (in_index == 0 || (in_flags & (CFGF_LIST | CFGF_MULTI)))) {
		if (rc != CFG_SUCCESS && !in_simple && !(in_flags & CFGF_RESET))
			CHECK("C10,C18,C09", same_content(&o, &s), "a setter that reports failure has stored nothing: values, count, annotation and markers of a non-default option are as before");
#ifdef CFGV_NO_ALLOC_FAILURE
		CHECK("C09", rc == CFG_SUCCESS, "a legal setter call succeeds (no allocation failure in this unit)");
#endif
	}
	CHECK("C09", cfg_opt_setnint(NULL, v, 0) == CFG_FAIL, "NULL option fails");
}
void h_opt_setnint(void)
{
#define CALL(n) b_opt_setnint(CFGT_INT, n, 0, nondet_uint())
	unsigned w_ = nondet_uint();
	k_flags = CFGF_LIST;
	if (w_ == 0) FOR_EACH_FLAGS(b_opt_setnint(CFGT_INT, 0, 1, nondet_uint()));          /* simple option */
	else if (w_ == 1) b_opt_setnint(CFGT_FLOAT, 1, 0, 0);           /* wrong types: refused before anything else */
	else if (w_ == 2) b_opt_setnint(CFGT_BOOL, 1, 0, 0);
	else if (w_ == 3) b_opt_setnint(CFGT_PTR, 1, 0, 0);
	else if (w_ == 4) b_opt_setnint(CFGT_FUNC, 0, 0, 0);
	else if (w_ == 5) b_opt_setnint(CFGT_NONE, 0, 0, 0);
	else FOR_EACH_FLAGS(FOR_EACH_COUNT(CALL));
#undef CALL
	CANARY("opt_setnint");
}

static void b_opt_setnfloat_bool(cfg_type_t t, unsigned n, _Bool which, unsigned idx)
{
	cfg_opt_t o; snap_t s; int rc;
	double d = nondet_double();
	cfg_bool_t b = nondet_bool() ? cfg_true : cfg_false;
	__CPROVER_assume(!__CPROVER_isnand(d));
	mk_opt(&o, t, n, 0);
	in_index = idx;
	snap(&o, &s);

	rc = which ? cfg_opt_setnfloat(&o, d, in_index) : cfg_opt_setnbool(&o, b, in_index);

	{
		cfg_type_t want = which ? CFGT_FLOAT : CFGT_BOOL;
		_Bool legal = in_index == 0 || (in_flags & (CFGF_LIST | CFGF_MULTI));
		CHECK("C09,C10", (t == want && legal) || (rc == CFG_FAIL && same(&o, &s)), "float/bool setter: wrong type or index > 0 on a scalar fails without effect");
		if (rc == CFG_SUCCESS) {
			unsigned at = (in_flags & CFGF_RESET) ? 0 : (in_index < in_n ? in_index : in_n);
			CHECK("C09", o.flags & CFGF_MODIFIED, "a successful float/bool setter marks the option modified");
			CHECK("C09", o.nvalues == ((in_flags & CFGF_RESET) ? 1 : (in_index < in_n ? in_n : in_n + 1)), "float/bool setter: count as the store prescribes");
			CHECK("C09", which ? o.values[at]->fpnumber == d : o.values[at]->boolean == b, "float/bool setter: the value is stored at its index");
		}
		if (t == want && legal) {
			if (rc != CFG_SUCCESS && !(in_flags & CFGF_RESET))
				CHECK("C10,C18,C09", same_content(&o, &s), "float/bool setter: a call that reports failure has stored nothing");
#ifdef CFGV_NO_ALLOC_FAILURE
			CHECK("C09", rc == CFG_SUCCESS, "float/bool setter: a legal call succeeds (no allocation failure in this unit)");
#endif
		}
	}
}
void h_opt_setnfloat_bool(void)
{
#define CALL(n) do { if (nondet_bool()) b_opt_setnfloat_bool(CFGT_FLOAT, n, 1, nondet_uint()); else b_opt_setnfloat_bool(CFGT_BOOL, n, 0, nondet_uint()); } while (0)
	unsigned w_ = nondet_uint();
	k_flags = CFGF_LIST;
	if (w_ == 0) b_opt_setnfloat_bool(CFGT_INT, 1, 1, 0);             /* wrong types */
	else if (w_ == 1) b_opt_setnfloat_bool(CFGT_INT, 1, 0, 0);
	else if (w_ == 2) b_opt_setnfloat_bool(CFGT_BOOL, 1, 1, 0);
	else if (w_ == 3) b_opt_setnfloat_bool(CFGT_FLOAT, 1, 0, 0);
	else FOR_EACH_FLAGS(FOR_EACH_COUNT(CALL));
#undef CALL
	CANARY("opt_setnfloat_bool");
}

/* contract::cfg_opt_setnstr(opt, value, index)
 *   wrong type / illegal index -> CFG_FAIL without effect
 *   success: slot holds a FRESH copy of value (or NULL for NULL), the old string is released exactly once
 *   allocation failure: CFG_FAIL and the old string is still in place and alive (C18)
 */
static void b_opt_setnstr(cfg_type_t t, unsigned n, unsigned idx)
{
	cfg_opt_t o; snap_t s; int rc;
	char *nv = nondet_bool() ? cfgv_string(2) : NULL;
	char *olds[NV + 1]; char nvcopy[3] = { 0, 0, 0 }; _Bool aliased = 0;
	mk_opt(&o, t, n, 0);
	in_index = idx;
	snap(&o, &s);
	for (unsigned i = 0; i < NV; i++) olds[i] = (t == CFGT_STR && i < in_n) ? o.values[i]->string : NULL;
	/* the new value may be the slot's own current string: set(get()) must be the identity */
	if (t == CFGT_STR && nondet_bool() && in_index < in_n && o.values[in_index]->string) { if (nv) free(nv); nv = o.values[in_index]->string; aliased = 1; }
	if (nv) { nvcopy[0] = nv[0]; nvcopy[1] = nv[0] ? nv[1] : 0; nvcopy[2] = 0; }

	rc = cfg_opt_setnstr(&o, nv, in_index);

	{
		_Bool legal = in_index == 0 || (in_flags & (CFGF_LIST | CFGF_MULTI));
		CHECK("C09,C10", (t == CFGT_STR && legal) || (rc == CFG_FAIL && same(&o, &s)), "string setter: wrong type or index > 0 on a scalar fails without effect");
#ifdef CFGV_NO_ALLOC_FAILURE
		if (t == CFGT_STR && legal) CHECK("C09", rc == CFG_SUCCESS, "string setter: a legal call succeeds (no allocation failure in this unit)");
#endif
		if (t == CFGT_STR && legal && rc != CFG_SUCCESS && !(in_flags & CFGF_RESET) && in_index < in_n)
			CHECK("C10,C18,C09", same_content(&o, &s), "string setter: a call on an existing slot that reports failure has stored nothing");
		if (t == CFGT_STR && legal && rc == CFG_SUCCESS) {
			unsigned at = (in_flags & CFGF_RESET) ? 0 : (in_index < in_n ? in_index : in_n);
			CHECK("C09", o.flags & CFGF_MODIFIED, "a successful string setter marks the option modified");
			CHECK("C09", o.nvalues == ((in_flags & CFGF_RESET) ? 1 : (in_index < in_n ? in_n : in_n + 1)), "string setter: count as the store prescribes");
			CHECK("C09,C16,C07", nv ? (o.values[at]->string != NULL && (aliased || o.values[at]->string != nv) && strcmp(o.values[at]->string, nvcopy) == 0) : o.values[at]->string == NULL,
			      "string setter stores a private copy with the same bytes (also when the new value is the slot's own current string)");
			for (unsigned i = 0; i < NV; i++)
				if (!(in_flags & CFGF_RESET) && i < in_n && i != in_index)
					CHECK("C09", o.values[i] == s.slot[i] && o.values[i]->string == olds[i], "string setter: the other values keep their place and content");
		}
		if (t == CFGT_STR && legal && rc == CFG_FAIL && !(in_flags & CFGF_RESET) && in_index < in_n) {
			CHECK("C18,C10", o.values[in_index]->string == olds[in_index], "string setter: on allocation failure the old string stays in place");
			if (olds[in_index])
				CHECK("C18", __CPROVER_r_ok(olds[in_index], 1), "string setter: on allocation failure the old string is still alive");
		}
	}
}
void h_opt_setnstr(void)
{
#define CALL(n) b_opt_setnstr(CFGT_STR, n, nondet_uint())
	k_flags = CFGF_LIST;
	if (nondet_bool()) b_opt_setnstr(CFGT_INT, 1, 0); else
	FOR_EACH_FLAGS(FOR_EACH_COUNT(CALL));
#undef CALL
	CANARY("opt_setnstr");
}

/* ownership on replacement (C07), constant shape so that --memory-leak-check can speak: a scalar string option that holds
 * an explicitly set string is given a new one (or NULL); afterwards the harness releases the option as it now stands, and
 * nothing may be left over - the replaced string was released by the call, exactly once */
void h_setnstr_release(void)
{
	cfg_opt_t o; int rc; char *nv = nondet_bool() ? cfgv_string(2) : NULL;
	k_flags = 0; k_leftover = 0;
	mk_opt(&o, CFGT_STR, 1, 0);
	rc = cfg_opt_setnstr(&o, nv, 0);
	CHECK("C09,C07", rc == CFG_SUCCESS && o.nvalues == 1, "replacing the string of a set scalar succeeds (no allocation failure in this unit)");
	drop_opt(&o);
	if (nv) free(nv);
	CANARY("setnstr_release");
}
/* contract::cfg_opt_setcomment(opt, comment): fresh copy, old one released once, COMMENTS|MODIFIED set;
 * NULL argument or allocation failure -> CFG_FAIL and nothing changes */
void h_opt_setcomment(void)
{
	cfg_opt_t o; snap_t s; int rc;
	char *c = nondet_bool() ? cfgv_string(2) : NULL;
	k_flags = nondet_bool() ? 0 : (FL_DATA | CFGF_RESET);
	mk_opt(&o, CFGT_INT, 1, 0);
	snap(&o, &s);

	rc = cfg_opt_setcomment(&o, c);

	CHECK("C15,C18", rc == CFG_SUCCESS || same(&o, &s), "setcomment: failure (NULL text, allocation failure) changes nothing");
	CHECK("C15", c != NULL || rc == CFG_FAIL, "setcomment: NULL text is refused");
#ifdef CFGV_NO_ALLOC_FAILURE
	CHECK("C15", c == NULL || rc == CFG_SUCCESS, "setcomment: a text is accepted (no allocation failure in this unit)");
#endif
	if (rc == CFG_SUCCESS) {
		CHECK("C15,C16", o.comment != NULL && o.comment != c && strcmp(o.comment, c) == 0, "setcomment stores a private copy of the text");
		CHECK("C15", (o.flags & CFGF_COMMENTS) && (o.flags & CFGF_MODIFIED), "setcomment marks the option annotated and modified");
		CHECK("C15", o.nvalues == s.nvalues && o.values == s.values, "setcomment leaves the values alone");
	}
	CHECK("C15", cfg_opt_setcomment(NULL, c) == CFG_FAIL, "setcomment(NULL option) fails");
	if (c) free(c);
	drop_opt(&o);
	CANARY("opt_setcomment");
}

/* contract::cfg_free_value(opt): every slot, every owned string, every section (path detached first, handed to
 * cfg_free exactly once), every user pointer (handed to the release callback exactly once, only if non-NULL and a
 * callback is registered) and the slot array are released; annotation released unless the option still is a pristine
 * default; afterwards the option is empty.  Leak / double free / use after free: CBMC's own obligations. */
static int g_freecb_calls; static void *g_freecb_log[NV + 1];
static void cfgv_freecb(void *p) { if (g_freecb_calls < NV) g_freecb_log[g_freecb_calls] = p; g_freecb_calls++; }

static void b_free_value(cfg_type_t t, unsigned n)
{
	cfg_opt_t o; snap_t s; int rc;
	cfg_t *secs[NV + 1]; void *ptrs[NV + 1];
	unsigned nonnull = 0;
	mk_opt(&o, t, n, 0);
	if (t == CFGT_PTR && nondet_bool()) o.freecb = cfgv_freecb;
	for (unsigned i = 0; i < NV; i++) {
		secs[i] = (t == CFGT_SEC && i < in_n) ? o.values[i]->section : NULL;
		ptrs[i] = (t == CFGT_PTR && i < in_n) ? o.values[i]->ptr : NULL;
		if (ptrs[i]) nonnull++;
	}
	snap(&o, &s);
	g_free_calls = 0; g_freecb_calls = 0;

	rc = cfg_free_value(&o);

	CHECK("C07", rc == CFG_SUCCESS && o.values == NULL && o.nvalues == 0, "free_value leaves the option empty");
	CHECK("C07", (in_flags & CFGF_RESET) ? o.comment == s.comment : o.comment == NULL, "free_value releases the annotation unless the option is a pristine default");
	if (t == CFGT_SEC) {
		CHECK("C07", g_free_calls == (int)in_n, "free_value hands every section to cfg_free exactly once");
		for (unsigned i = 0; i < NV; i++) if (i < in_n) CHECK("C07", g_free_log[i] == secs[i], "free_value releases the sections it holds, in order");
	} else CHECK("C07", g_free_calls == 0, "free_value calls cfg_free only for section options");
	if (t == CFGT_PTR && o.freecb) {
		CHECK("C07", g_freecb_calls == (int)nonnull, "free_value hands every non-NULL user pointer to the release callback exactly once");
	} else CHECK("C07", g_freecb_calls == 0, "free_value calls the release callback only for pointer options that registered one");
	CHECK("C07", cfg_free_value(NULL) == CFG_FAIL, "free_value(NULL) fails");
	if (o.comment) free(o.comment);
}
void h_free_value(void)
{
#define CALL(n) do { unsigned k_ = nondet_uint(); if (k_ == 0) b_free_value(CFGT_INT, n); else if (k_ == 1) b_free_value(CFGT_STR, n); \
	else if (k_ == 2) b_free_value(CFGT_SEC, n); else if (k_ == 3) b_free_value(CFGT_PTR, n); else if (k_ == 4) b_free_value(CFGT_FLOAT, n); \
	else if (k_ == 5) b_free_value(CFGT_BOOL, n); else b_free_value(CFGT_FUNC, n); } while (0)
	FOR_RESET_FLAGS(FOR_EACH_COUNT(CALL));
#undef CALL
	CANARY("free_value");
}
