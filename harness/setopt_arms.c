/* Units on cfg_setopt(): string / pointer / parse-callback / section arms (C01 C07 C10 C14 C16 C18 C09).
 * contract::cfg_setopt(cfg, opt, text), common part:
 *   NULL cfg/opt -> NULL.   simple option -> the user's variable is the slot (sections: refused).
 *   a pristine default (RESET) is dropped first; empty / list / multi option: one slot appended, else slot 0.
 *   success -> the slot is returned, MODIFIED set.
 */
#include "store.c"

/* ---------------------------------------------------------------- parse callbacks (one carrier per value type) */
static int g_pcb_calls, g_pcb_ret; static cfg_t *g_pcb_cfg; static cfg_opt_t *g_pcb_opt; static const char *g_pcb_text;
static long g_pcb_long; static void *g_pcb_ptr; static const char *g_pcb_str;
static int cfgv_parsecb_int(cfg_t *cfg, cfg_opt_t *opt, const char *value, void *result)
{ g_pcb_calls++; g_pcb_cfg = cfg; g_pcb_opt = opt; g_pcb_text = value; if (g_pcb_ret == 0) *(long *)result = g_pcb_long; errno = nondet_int(); return g_pcb_ret; }
static int cfgv_parsecb_ptr(cfg_t *cfg, cfg_opt_t *opt, const char *value, void *result)
{ g_pcb_calls++; g_pcb_cfg = cfg; g_pcb_opt = opt; g_pcb_text = value; if (g_pcb_ret == 0) *(void **)result = g_pcb_ptr; return g_pcb_ret; }
static _Bool g_pcb_nowrite;     /* the callback accepts but hands nothing back (leaves the result variable alone) */
static int cfgv_parsecb_str(cfg_t *cfg, cfg_opt_t *opt, const char *value, void *result)
{ g_pcb_calls++; g_pcb_cfg = cfg; g_pcb_opt = opt; g_pcb_text = value; if (g_pcb_ret == 0 && !g_pcb_nowrite) *(const char **)result = g_pcb_str; return g_pcb_ret; }

static void mk_cfg(cfg_t *cfg)
{
	memset(cfg, 0, sizeof *cfg);
	cfg->name = "root"; cfg->errfunc = cfgv_errfunc; cfg->line = nondet_int();
	g_diag = 0;
}
/* the slot cfg_setopt must designate, given the pre-state */
#define APPENDS(n) ((n) == 0 || (k_flags & (CFGF_LIST | CFGF_MULTI)) || (k_flags & CFGF_RESET))

/* ---------------------------------------------------------------- INT with a parse callback (C14)
 * the callback is invoked exactly once with (cfg, opt, text, &result); zero -> its result is stored; non-zero ->
 * NULL, and a scalar that held a value keeps it */
static void b_setopt_pcb_int(unsigned n)
{
	cfg_t cfg; cfg_opt_t o; snap_t s; cfg_value_t *r;
	char text[2] = { nondet_char(), 0 };
	if ((k_flags & CFGF_MULTI) || (!(k_flags & CFGF_LIST) && n > 1)) return;
	mk_cfg(&cfg); mk_opt(&o, CFGT_INT, n, 0);
	o.parsecb = cfgv_parsecb_int;
	snap(&o, &s);
	g_pcb_calls = 0; g_pcb_ret = nondet_int(); g_pcb_long = nondet_long();
	errno = nondet_int();      /* whatever errno is before or after the callback: its return value alone is the verdict */
	r = cfg_setopt(&cfg, &o, text);
	CHECK("C14", g_pcb_calls <= 1 && (r == NULL || g_pcb_calls == 1), "the value-parsing callback is invoked exactly once per stored value (never twice; not at all only when the slot could not be allocated)");
	CHECK("C14", g_pcb_calls == 0 || (g_pcb_cfg == &cfg && g_pcb_opt == &o && g_pcb_text == text), "the value-parsing callback receives the context, the option and the token text");
	CHECK("C14", g_pcb_calls == 0 || ((g_pcb_ret != 0) == (r == NULL)), "a non-zero result of the value-parsing callback fails the assignment, zero succeeds");
#ifdef CFGV_NO_ALLOC_FAILURE
	CHECK("C14", g_pcb_calls == 1, "the value-parsing callback is consulted (no allocation failure in this unit)");
#endif
	if (r) {
		CHECK("C14", r->number == g_pcb_long, "the stored value is the one the parsing callback produced");
		CHECK("C01,C09", APPENDS(n) ? (o.nvalues == ((k_flags & CFGF_RESET) ? 1 : n + 1) && r == o.values[o.nvalues - 1]) : (o.nvalues == n && r == o.values[0]),
		      "set-from-text: a list / empty / default-holding option gets one new value at the end, a set scalar is overwritten");
		CHECK("C01", (o.flags & CFGF_MODIFIED) && !(o.flags & CFGF_RESET), "set-from-text marks the option modified and no longer a default");
	} else if (!APPENDS(n))
		CHECK("C14,C10", same(&o, &s), "a vetoed assignment to a scalar that holds a value leaves it exactly as it was");
}
void h_setopt_pcb_int(void)
{
	FOR_EACH_FLAGS(FOR_EACH_COUNT(b_setopt_pcb_int));
	CANARY("setopt_pcb_int");
}

/* the same contract for FLOAT and BOOL options with a parse callback */
static double g_pcb_double; static cfg_bool_t g_pcb_bool;
static int cfgv_parsecb_float(cfg_t *cfg, cfg_opt_t *opt, const char *value, void *result)
{ g_pcb_calls++; g_pcb_cfg = cfg; g_pcb_opt = opt; g_pcb_text = value; if (g_pcb_ret == 0) *(double *)result = g_pcb_double; return g_pcb_ret; }
static int cfgv_parsecb_bool(cfg_t *cfg, cfg_opt_t *opt, const char *value, void *result)
{ g_pcb_calls++; g_pcb_cfg = cfg; g_pcb_opt = opt; g_pcb_text = value; if (g_pcb_ret == 0) *(cfg_bool_t *)result = g_pcb_bool; return g_pcb_ret; }
static int k_pcb_type;
static void b_setopt_pcb_fb(unsigned n)
{
	cfg_t cfg; cfg_opt_t o; snap_t s; cfg_value_t *r;
	char text[2] = { nondet_char(), 0 };
	if ((k_flags & CFGF_MULTI) || (!(k_flags & CFGF_LIST) && n > 1)) return;
	mk_cfg(&cfg); mk_opt(&o, k_pcb_type, n, 0);
	o.parsecb = k_pcb_type == CFGT_FLOAT ? cfgv_parsecb_float : cfgv_parsecb_bool;
	snap(&o, &s);
	g_pcb_calls = 0; g_pcb_ret = nondet_int(); g_pcb_double = nondet_double(); g_pcb_bool = nondet_bool() ? cfg_true : cfg_false;
	__CPROVER_assume(!__CPROVER_isnand(g_pcb_double));
	r = cfg_setopt(&cfg, &o, text);
	CHECK("C14", g_pcb_calls <= 1 && (r == NULL || g_pcb_calls == 1), "float / boolean option: the value-parsing callback is invoked exactly once per stored value");
	CHECK("C14", g_pcb_calls == 0 || (g_pcb_cfg == &cfg && g_pcb_opt == &o && g_pcb_text == text), "float / boolean option: the value-parsing callback receives the context, the option and the token text");
	CHECK("C14", g_pcb_calls == 0 || ((g_pcb_ret != 0) == (r == NULL)), "float / boolean option: a non-zero result of the value-parsing callback fails the assignment, zero succeeds");
#ifdef CFGV_NO_ALLOC_FAILURE
	CHECK("C14", g_pcb_calls == 1, "float / boolean option: the value-parsing callback is consulted (no allocation failure in this unit)");
#endif
	if (r) {
		CHECK("C14", k_pcb_type == CFGT_FLOAT ? r->fpnumber == g_pcb_double : r->boolean == g_pcb_bool, "float / boolean option: the stored value is the one the parsing callback produced");
		CHECK("C01,C09", APPENDS(n) ? (o.nvalues == ((k_flags & CFGF_RESET) ? 1 : n + 1) && r == o.values[o.nvalues - 1]) : (o.nvalues == n && r == o.values[0]),
		      "float / boolean set-from-text: a list / empty / default-holding option gets one new value at the end, a set scalar is overwritten");
	} else if (!APPENDS(n))
		CHECK("C14,C10", same(&o, &s), "float / boolean option: a vetoed assignment to a scalar that holds a value leaves it exactly as it was");
}
void h_setopt_pcb_fb(void)
{
	if (nondet_bool()) { k_pcb_type = CFGT_FLOAT; FOR_EACH_FLAGS(FOR_EACH_COUNT(b_setopt_pcb_fb)); }
	else { k_pcb_type = CFGT_BOOL; FOR_EACH_FLAGS(FOR_EACH_COUNT(b_setopt_pcb_fb)); }
	CANARY("setopt_pcb_fb");
}

/* ---------------------------------------------------------------- simple options (CFG_SIMPLE_*): the caller's variable is the slot
 * contract: the converted value lands in the caller's variable, no slot array is created, a refused text leaves the
 * variable alone; a simple string variable holds a private copy and the string it held before is released */
void h_setopt_simple(void)
{
	cfg_t cfg; cfg_opt_t o; cfg_value_t *r; unsigned k = nondet_uint();
	mk_cfg(&cfg);
	memset(&o, 0, sizeof o); o.name = "o";
	if (k == 0) {
		long user = nondet_long(), before;
		o.type = CFGT_INT; o.simple_value.number = &user;
		r = cfg_setopt(&cfg, &o, "12");
		CHECK("C01,C09", r == (cfg_value_t *)&user && user == 12 && o.nvalues == 0 && o.values == NULL, "a simple integer option stores straight into the caller's variable; no slot is created");
		before = user; g_diag = 0;
		r = cfg_setopt(&cfg, &o, "1x");
		CHECK("C04,C10,C06", r == NULL && user == before && o.nvalues == 0 && g_diag == 1, "a simple integer option: a refused text is reported and leaves the caller's variable alone");
	} else if (k == 1) {
		/* (the variable lives in a block of the slot union's size: cfg_setopt addresses it as a cfg_value_t and CBMC checks the
		 * whole lvalue, although only the boolean member is written) */
		cfg_value_t userblock; cfg_bool_t before;
#define user userblock.boolean
		user = nondet_bool() ? cfg_true : cfg_false;
		o.type = CFGT_BOOL; o.simple_value.boolean = &user;
		r = cfg_setopt(&cfg, &o, "yes");
		CHECK("C01,C09", r == (cfg_value_t *)&user && user == cfg_true && o.nvalues == 0 && o.values == NULL, "a simple boolean option stores straight into the caller's variable");
		r = cfg_setopt(&cfg, &o, "off");
		CHECK("C01,C09", r == (cfg_value_t *)&user && user == cfg_false, "a simple boolean option is overwritten by the next assignment");
		before = user;
		r = cfg_setopt(&cfg, &o, "maybe");
		CHECK("C04,C10", r == NULL && user == before, "a simple boolean option: an unknown word leaves the caller's variable alone");
#undef user
	} else {
		char *user = nondet_bool() ? cfgv_string(2) : NULL; char text[3] = "ab";
		o.type = CFGT_STR; o.simple_value.string = &user;
		r = cfg_setopt(&cfg, &o, text);
		if (r) {
			CHECK("C01,C16", r == (cfg_value_t *)&user && user != NULL && user != text && strcmp(user, "ab") == 0 && o.nvalues == 0 && o.values == NULL, "a simple string option holds a private copy of the text in the caller's variable");
			free(user);        /* with --memory-leak-check: the string held before was released by the call */
		}
	}
	CANARY("setopt_simple");
}

/* ---------------------------------------------------------------- PTR arm (C07 C14)
 * no parse callback -> refused (EINVAL).  Callback non-zero -> NULL and the value held is neither released nor
 * replaced.  Zero -> the old non-NULL pointer is handed to the release callback exactly once (if one is registered),
 * the new pointer is stored. */
static void b_setopt_ptr(unsigned n)
{
	cfg_t cfg; cfg_opt_t o; snap_t s; cfg_value_t *r;
	_Bool hascb = nondet_bool(), hasfree = nondet_bool();
	void *oldp;
	if ((k_flags & (CFGF_MULTI | CFGF_LIST | CFGF_RESET)) || n > 1) return;     /* the overwrite case: a scalar pointer option */
	mk_cfg(&cfg); mk_opt(&o, CFGT_PTR, n, 0);
	if (hascb) o.parsecb = cfgv_parsecb_ptr;
	if (hasfree) o.freecb = cfgv_freecb;
	oldp = n ? o.values[0]->ptr : NULL;
	snap(&o, &s);
	g_pcb_calls = 0; g_pcb_ret = nondet_int(); g_pcb_ptr = nondet_ptr(); g_freecb_calls = 0;
	r = cfg_setopt(&cfg, &o, "t");
	if (!hascb) CHECK("C09", r == NULL && g_freecb_calls == 0, "a pointer option without parse callback cannot be set from text");
	else {
		CHECK("C14", g_pcb_calls <= 1 && (r == NULL || g_pcb_calls == 1), "pointer option: the parsing callback is invoked exactly once per stored value");
#ifdef CFGV_NO_ALLOC_FAILURE
		CHECK("C14", g_pcb_calls == 1 && (g_pcb_ret != 0 || r != NULL), "pointer option: the parsing callback is consulted and its value stored (no allocation failure in this unit)");
#endif
		if (g_pcb_calls == 0) CHECK("C07", g_freecb_calls == 0, "pointer option: nothing is released when the slot could not be allocated");
		else if (g_pcb_ret != 0) {
			CHECK("C14", r == NULL, "pointer option: a failing parse callback fails the assignment");
			CHECK("C07", g_freecb_calls == 0, "pointer option: a failed assignment releases nothing");
			if (n == 1) CHECK("C07,C10", o.values[0]->ptr == oldp && o.nvalues == 1, "pointer option: a failed assignment keeps the old value");
		} else if (r) {
			CHECK("C14", r->ptr == g_pcb_ptr, "pointer option: the stored value is the one the callback produced");
			CHECK("C07", g_freecb_calls == ((n == 1 && oldp && hasfree) ? 1 : 0) && (g_freecb_calls == 0 || g_freecb_log[0] == oldp),
			      "pointer option: the replaced user pointer is handed to the release function exactly once");
		}
	}
}
void h_setopt_ptr(void)
{
	k_flags = nondet_bool() ? 0 : FL_DATA;
	FOR_EACH_COUNT(b_setopt_ptr);
	CANARY("setopt_ptr");
}

/* ---------------------------------------------------------------- STR arm (C01 C14 C07 C16)
 * text (or the callback's string) NULL -> refused; otherwise the slot holds a private copy, the string it held
 * before is released once. */
static void b_setopt_str(unsigned n)
{
	cfg_t cfg; cfg_opt_t o; snap_t s; cfg_value_t *r;
	_Bool hascb = nondet_bool(), nulltext = nondet_bool();
	char *text = cfgv_string(2), *cbstr = cfgv_string(2);
	char *olds = NULL;
	if ((k_flags & CFGF_MULTI) || (!(k_flags & CFGF_LIST) && n > 1)) { free(text); free(cbstr); return; }
	mk_cfg(&cfg); mk_opt(&o, CFGT_STR, n, 0);
	if (hascb) o.parsecb = cfgv_parsecb_str;
	if (n && !APPENDS(n)) olds = o.values[0]->string;
	snap(&o, &s);
	g_pcb_calls = 0; g_pcb_ret = nondet_int(); g_pcb_str = nondet_bool() ? cbstr : NULL;
	g_pcb_nowrite = nondet_bool(); if (g_pcb_nowrite) g_pcb_str = NULL;      /* empty-handed either way: a NULL handed back, or nothing written */
	r = cfg_setopt(&cfg, &o, nulltext ? NULL : text);
	CHECK("C14", g_pcb_calls <= (hascb ? 1 : 0) && (r == NULL || g_pcb_calls == (hascb ? 1 : 0)), "string option: the parsing callback is invoked exactly once per stored value when registered, never otherwise");
	{
		const char *src = hascb ? (g_pcb_ret == 0 ? g_pcb_str : NULL) : (nulltext ? NULL : text);
		CHECK("C14,C09", src != NULL || r == NULL, "string option: no text (or a failing / empty-handed callback) fails the assignment");
#ifdef CFGV_NO_ALLOC_FAILURE
		CHECK("C14,C09,C01", src == NULL || r != NULL, "string option: a text (or the string an accepting callback produced) is stored (no allocation failure in this unit)");
#endif
		if (src == NULL && n == 1 && !APPENDS(n)) CHECK("C10", o.values[0]->string == olds && o.nvalues == 1 && o.flags == s.flags, "string option: an assignment refused for lack of a text leaves the value it held in place");
		if (r) {
			CHECK("C01,C16", r->string != NULL && r->string != src && strcmp(r->string, src) == 0, "string option: the slot holds a private copy of the text");
			CHECK("C01,C09", APPENDS(n) ? (o.nvalues == ((k_flags & CFGF_RESET) ? 1 : n + 1) && r == o.values[o.nvalues - 1]) : (o.nvalues == n && r == o.values[0]),
			      "string set-from-text: list / empty / default-holding option gets one new value at the end, a set scalar is overwritten");
		}
	}
	free(text); free(cbstr);
}
void h_setopt_str(void)
{
	FOR_EACH_FLAGS(FOR_EACH_COUNT(b_setopt_str));
	CANARY("setopt_str");
}

/* ownership on replacement through set-from-text (C07): same shape as setnstr_release */
void h_setopt_str_release(void)
{
	cfg_t cfg; cfg_opt_t o; cfg_value_t *r; char *text = cfgv_string(2);
	mk_cfg(&cfg);
	k_flags = 0; k_leftover = 0;
	mk_opt(&o, CFGT_STR, 1, 0);
	r = cfg_setopt(&cfg, &o, text);
	CHECK("C09,C07", r == o.values[0] && o.nvalues == 1, "set-from-text on a set scalar string succeeds (no allocation failure in this unit)");
	drop_opt(&o);
	free(text);
	CANARY("setopt_str_release");
}

/* ---------------------------------------------------------------- argument validation */
void h_setopt_args(void)
{
	cfg_t cfg; cfg_opt_t o; snap_t s;
	mk_cfg(&cfg);
	k_flags = 0; k_leftover = 0;
	mk_opt(&o, CFGT_INT, 1, 0);
	snap(&o, &s);
	CHECK("C09", cfg_setopt(NULL, &o, "1") == NULL && cfg_setopt(&cfg, NULL, "1") == NULL && same(&o, &s), "set-from-text without context or option fails without effect");
	o.type = CFGT_INT; 
	CHECK("C09,C10", cfg_setopt(&cfg, &o, NULL) == NULL && same(&o, &s), "integer set-from-text without text fails without effect");
	o.type = CFGT_FLOAT;
	CHECK("C09,C10", cfg_setopt(&cfg, &o, NULL) == NULL && same(&o, &s), "float set-from-text without text fails without effect");
	o.type = CFGT_FUNC;
	CHECK("C09", cfg_setopt(&cfg, &o, "x") == NULL, "a function option cannot be set from text");
	o.type = CFGT_SEC; o.simple_value.ptr = &g_simple_store;
	CHECK("C09", cfg_setopt(&cfg, &o, "x") == NULL, "a simple section option is refused");
	CANARY("setopt_args");
}
