/* Units on the by-name convenience layer (C09 C01 C19 C11): every cfg_getX / cfg_setX / cfg_rmX / cfg_printX wrapper is the
 * opt-level operation applied to the option its name resolves to - nothing more.  cfg_getopt / cfg_getopt_secidx and the
 * opt-level mutators and printers are contract carriers (each is enforced by its own unit); the opt-level getters are
 * the real, loop-free code (units getters_n*), so a wrapper is compared with the getter on the resolved option. */
#include "ref_strings.h"
#include "common.h"
#include "ghost.h"
extern int g_w_calls, g_w_kind; extern cfg_opt_t *g_w_opt; extern cfg_t *g_w_cfg; extern long g_w_long; extern double g_w_double; extern cfg_bool_t g_w_bool; extern const char *g_w_str;
extern unsigned g_w_index; extern int g_w_ret; extern FILE *g_w_fp; extern int g_w_indent; extern cfg_print_filter_func_t g_w_pff; extern cfg_print_func_t g_w_pf, g_w_pf_ret;
extern unsigned g_w_n; extern char **g_w_values;
extern cfg_opt_t *g_secidx_result; extern long g_secidx_index; extern cfg_t *g_secidx_cfg; extern const char *g_secidx_name; extern int g_secidx_calls, g_secidx_had_index;

static cfg_t w_cfg; static cfg_opt_t w_opt; static cfg_value_t w_v0, w_v1, *w_vals[2]; static cfg_t w_s0, w_s1; static char w_name[2] = "n";
static char w_str0[2] = "x", w_str1[2] = "y", w_t0[2] = "t", w_t1[2] = "u", w_comment[2] = "c";
static int w_ptr0, w_ptr1;
/* the option the name resolves to: none, or an option of a literal type holding 0..2 values */
static void w_resolved(int type, unsigned n, _Bool found)
{
	memset(&w_cfg, 0, sizeof w_cfg); memset(&w_opt, 0, sizeof w_opt);
	w_cfg.name = "root"; w_cfg.flags = nondet_int();      /* whatever the context flags: the wrappers do not look at them */
	w_opt.name = "o"; w_opt.type = type; w_opt.nvalues = n; w_opt.values = n ? w_vals : NULL; w_opt.comment = nondet_bool() ? w_comment : NULL;
	w_vals[0] = &w_v0; w_vals[1] = &w_v1;
	if (type == CFGT_INT) { w_v0.number = nondet_long(); w_v1.number = nondet_long(); }
	else if (type == CFGT_FLOAT) { w_v0.fpnumber = nondet_double(); w_v1.fpnumber = nondet_double(); __CPROVER_assume(!__CPROVER_isnand(w_v0.fpnumber) && !__CPROVER_isnand(w_v1.fpnumber)); }
	else if (type == CFGT_BOOL) { w_v0.boolean = nondet_bool() ? cfg_true : cfg_false; w_v1.boolean = nondet_bool() ? cfg_true : cfg_false; }
	else if (type == CFGT_STR) { w_v0.string = w_str0; w_v1.string = w_str1; }
	else if (type == CFGT_PTR) { w_v0.ptr = &w_ptr0; w_v1.ptr = &w_ptr1; }
	else if (type == CFGT_SEC) { w_v0.section = &w_s0; w_v1.section = &w_s1; w_s0.title = w_t0; w_s1.title = w_t1; w_opt.flags = CFGF_MULTI | CFGF_TITLE; }
	g_getopt_result = found ? &w_opt : NULL; g_getopt_calls = 0; g_getopt_name = NULL; g_getopt_cfg = NULL;
	g_w_calls = 0; g_w_kind = 0;
}
#define RESOLVED_ONCE (g_getopt_calls == 1 && g_getopt_cfg == &w_cfg && g_getopt_name == w_name)
#define FRESH() do { g_getopt_calls = 0; g_getopt_name = NULL; g_getopt_cfg = NULL; g_w_calls = 0; g_w_kind = 0; } while (0)

static int k_type; static unsigned k_n; static _Bool k_found;
static void b_wrap_getters(void)
{
	unsigned idx = nondet_uint(); cfg_opt_t *o;
	w_resolved(k_type, k_n, k_found); o = g_getopt_result;
	/* (the float comparisons are on values that are not NaN) */
	FRESH(); CHECK("C09,C01", cfg_getnint(&w_cfg, w_name, idx) == cfg_opt_getnint(o, idx) && RESOLVED_ONCE, "cfg_getnint(cfg, name, i) is the i-th integer of the option the name resolves to");
	FRESH(); CHECK("C09,C01", cfg_getint(&w_cfg, w_name) == cfg_opt_getnint(o, 0) && RESOLVED_ONCE, "cfg_getint(cfg, name) is the first integer of the option the name resolves to");
	FRESH(); CHECK("C09,C01", cfg_getnfloat(&w_cfg, w_name, idx) == cfg_opt_getnfloat(o, idx) && RESOLVED_ONCE, "cfg_getnfloat(cfg, name, i) is the i-th float of the resolved option");
	FRESH(); CHECK("C09,C01", cfg_getfloat(&w_cfg, w_name) == cfg_opt_getnfloat(o, 0) && RESOLVED_ONCE, "cfg_getfloat(cfg, name) is the first float of the resolved option");
	FRESH(); CHECK("C09,C01", cfg_getnbool(&w_cfg, w_name, idx) == cfg_opt_getnbool(o, idx) && RESOLVED_ONCE, "cfg_getnbool(cfg, name, i) is the i-th boolean of the resolved option");
	FRESH(); CHECK("C09,C01", cfg_getbool(&w_cfg, w_name) == cfg_opt_getnbool(o, 0) && RESOLVED_ONCE, "cfg_getbool(cfg, name) is the first boolean of the resolved option");
	FRESH(); CHECK("C09,C01", cfg_getnstr(&w_cfg, w_name, idx) == cfg_opt_getnstr(o, idx) && RESOLVED_ONCE, "cfg_getnstr(cfg, name, i) is the i-th string of the resolved option");
	FRESH(); CHECK("C09,C01", cfg_getstr(&w_cfg, w_name) == cfg_opt_getnstr(o, 0) && RESOLVED_ONCE, "cfg_getstr(cfg, name) is the first string of the resolved option");
	FRESH(); CHECK("C09,C01", cfg_getnptr(&w_cfg, w_name, idx) == cfg_opt_getnptr(o, idx) && RESOLVED_ONCE, "cfg_getnptr(cfg, name, i) is the i-th pointer of the resolved option");
	FRESH(); CHECK("C09,C01", cfg_getptr(&w_cfg, w_name) == cfg_opt_getnptr(o, 0) && RESOLVED_ONCE, "cfg_getptr(cfg, name) is the first pointer of the resolved option");
	FRESH(); CHECK("C09,C11", cfg_getnsec(&w_cfg, w_name, idx) == cfg_opt_getnsec(o, idx) && RESOLVED_ONCE, "cfg_getnsec(cfg, name, i) is the i-th instance of the resolved section option");
	FRESH(); CHECK("C09,C01", cfg_size(&w_cfg, w_name) == cfg_opt_size(o) && RESOLVED_ONCE, "cfg_size(cfg, name) is the number of values of the resolved option");
	FRESH(); CHECK("C15,C09", cfg_getcomment(&w_cfg, w_name) == cfg_opt_getcomment(o) && RESOLVED_ONCE, "cfg_getcomment(cfg, name) is the annotation of the resolved option");
	FRESH(); CHECK("C09", cfg_opt_getstr(o) == cfg_opt_getnstr(o, 0) && g_getopt_calls == 0, "cfg_opt_getstr(opt) is the option's first string");
	if (k_type == CFGT_SEC) {
		char t[2]; t[0] = nondet_char(); t[1] = 0;
		FRESH(); CHECK("C09,C11", cfg_gettsec(&w_cfg, w_name, t) == cfg_opt_gettsec(o, t) && RESOLVED_ONCE, "cfg_gettsec(cfg, name, title) is the titled instance of the resolved section option");
	}
}
#define WG(t, n, f) do { k_type = (t); k_n = (n); k_found = (f); b_wrap_getters(); } while (0)
void h_wrap_getters(void)
{
	unsigned k = nondet_uint();
	if (k == 0) WG(CFGT_INT, 0, 0); else if (k == 1) WG(CFGT_INT, 0, 1); else if (k == 2) WG(CFGT_INT, 2, 1);
	else if (k == 3) WG(CFGT_FLOAT, 2, 1); else if (k == 4) WG(CFGT_BOOL, 2, 1); else if (k == 5) WG(CFGT_STR, 2, 1);
	else if (k == 6) WG(CFGT_PTR, 2, 1); else if (k == 7) WG(CFGT_SEC, 2, 1); else if (k == 8) WG(CFGT_SEC, 0, 1); else WG(CFGT_STR, 1, 1);
	CANARY("wrap_getters");
}

/* setters, removers, print-callback setter: one forward to the opt-level operation with exactly the caller's arguments
 * (index 0 for the unindexed forms), the verdict handed back unchanged, the option resolved once */
static int cfgv_vcb2_verdict, cfgv_vcb2_calls; static cfg_t *cfgv_vcb2_cfg; static cfg_opt_t *cfgv_vcb2_opt;
static int cfgv_vcb2(cfg_t *c, cfg_opt_t *o, void *v) { (void)v; cfgv_vcb2_calls++; cfgv_vcb2_cfg = c; cfgv_vcb2_opt = o; return cfgv_vcb2_verdict; }
static void cfgv_pf2(cfg_opt_t *opt, unsigned int index, FILE *fp) { (void)opt; (void)index; (void)fp; }
void h_wrap_setters(void)
{
	_Bool found = nondet_bool(); unsigned idx = nondet_uint(); int ret = nondet_bool() ? CFG_SUCCESS : CFG_FAIL; cfg_opt_t *o;
	long lv = nondet_long(); double dv = nondet_double(); cfg_bool_t bv = nondet_bool() ? cfg_true : cfg_false;
	__CPROVER_assume(!__CPROVER_isnand(dv));
	w_resolved(CFGT_INT, 1, found); o = g_getopt_result; g_w_ret = ret;
	FRESH(); CHECK("C09", cfg_setint(&w_cfg, w_name, lv) == ret && RESOLVED_ONCE && g_w_calls == 1 && g_w_kind == 1 && g_w_opt == o && g_w_long == lv && g_w_index == 0, "cfg_setint(cfg, name, v) stores v as value 0 of the resolved option and hands the verdict back");
	FRESH(); CHECK("C09", cfg_setfloat(&w_cfg, w_name, dv) == ret && RESOLVED_ONCE && g_w_calls == 1 && g_w_kind == 2 && g_w_opt == o && g_w_double == dv && g_w_index == 0, "cfg_setfloat(cfg, name, v) stores v as value 0 of the resolved option and hands the verdict back");
	FRESH(); CHECK("C09", cfg_setnbool(&w_cfg, w_name, bv, idx) == ret && RESOLVED_ONCE && g_w_calls == 1 && g_w_kind == 3 && g_w_opt == o && g_w_bool == bv && g_w_index == idx, "cfg_setnbool(cfg, name, v, i) stores v as value i of the resolved option and hands the verdict back");
	FRESH(); CHECK("C09", cfg_setbool(&w_cfg, w_name, bv) == ret && RESOLVED_ONCE && g_w_calls == 1 && g_w_kind == 3 && g_w_opt == o && g_w_bool == bv && g_w_index == 0, "cfg_setbool(cfg, name, v) stores v as value 0 of the resolved option and hands the verdict back");
	FRESH(); CHECK("C09", cfg_setstr(&w_cfg, w_name, w_str0) == ret && RESOLVED_ONCE && g_w_calls == 1 && g_w_kind == 4 && g_w_opt == o && g_w_str == w_str0 && g_w_index == 0, "cfg_setstr(cfg, name, s) stores s as value 0 of the resolved option and hands the verdict back");
	FRESH(); CHECK("C15,C09", cfg_setcomment(&w_cfg, w_name, w_comment) == ret && RESOLVED_ONCE && g_w_calls == 1 && g_w_kind == 5 && g_w_opt == o && g_w_str == w_comment, "cfg_setcomment(cfg, name, text) annotates the resolved option and hands the verdict back");
	FRESH(); CHECK("C09,C07", cfg_rmnsec(&w_cfg, w_name, idx) == ret && RESOLVED_ONCE && g_w_calls == 1 && g_w_kind == 6 && g_w_opt == o && g_w_index == idx, "cfg_rmnsec(cfg, name, i) removes instance i of the resolved section option and hands the verdict back");
	FRESH(); CHECK("C09,C07", cfg_rmtsec(&w_cfg, w_name, w_t0) == ret && RESOLVED_ONCE && g_w_calls == 1 && g_w_kind == 7 && g_w_opt == o && g_w_str == w_t0, "cfg_rmtsec(cfg, name, title) removes the titled instance of the resolved section option and hands the verdict back");
	g_w_pf_ret = nondet_bool() ? cfgv_pf2 : NULL;
	FRESH(); CHECK("C19,C16", cfg_set_print_func(&w_cfg, w_name, cfgv_pf2) == g_w_pf_ret && RESOLVED_ONCE && g_w_calls == 1 && g_w_kind == 9 && g_w_opt == o && g_w_pf == cfgv_pf2, "cfg_set_print_func(cfg, name, pf) installs pf on the resolved option and returns the previous callback");
	/* the validating by-name setters with a second-generation validator: asked once, with this context and option, before the store; its refusal is final */
	if (found) {
		w_opt.validcb2 = cfgv_vcb2; cfgv_vcb2_verdict = nondet_bool() ? 0 : nondet_int(); cfgv_vcb2_calls = 0;
		FRESH();
		int r = cfg_setint(&w_cfg, w_name, lv);
		CHECK("C14", cfgv_vcb2_calls == 1 && cfgv_vcb2_cfg == &w_cfg && cfgv_vcb2_opt == o, "the option's validator sees the value once, with this context and option");
		CHECK("C14,C10", cfgv_vcb2_verdict != 0 ? (r == CFG_FAIL && g_w_calls == 0) : (r == ret && g_w_calls == 1 && g_w_long == lv), "a refused value is never stored; an accepted one is stored as given");
		w_opt.validcb2 = NULL;
	}
	/* cfg_rmsec(cfg, path): the instance the path resolves to is removed */
	{
		long ix = nondet_long(); __CPROVER_assume(ix >= -1 && ix <= 3);
		g_secidx_result = found ? o : NULL; g_secidx_index = ix; g_secidx_calls = 0; g_w_calls = 0;
		CHECK("C11,C09", cfg_rmsec(&w_cfg, w_name) == ret && g_secidx_calls == 1 && g_secidx_cfg == &w_cfg && g_secidx_name == w_name && g_secidx_had_index && g_w_calls == 1 && g_w_kind == 6 && g_w_opt == g_secidx_result && g_w_index == (unsigned)ix,
		      "cfg_rmsec(cfg, path) removes exactly the instance the path resolves to (option and index from the resolver) and hands the verdict back");
	}
	/* cfg_setmulti(cfg, name, n, values) */
	{
		char *vals[2] = { w_str0, w_str1 }; unsigned n = nondet_uint();
		FRESH(); errno = 0;
		int r = cfg_setmulti(&w_cfg, w_name, n, vals);
		if (found) CHECK("C09,C10", r == ret && RESOLVED_ONCE && g_w_calls == 1 && g_w_kind == 8 && g_w_cfg == &w_cfg && g_w_opt == o && g_w_n == n && g_w_values == vals, "cfg_setmulti(cfg, name, n, texts) is the bulk set of the resolved option with the caller's arguments");
		else CHECK("C09,C10", r == CFG_FAIL && g_w_calls == 0 && errno == ENOENT, "cfg_setmulti on a name that does not resolve fails (ENOENT) and stores nothing");
		FRESH();
		CHECK("C09,C10", cfg_setmulti(NULL, w_name, 1, vals) == CFG_FAIL && cfg_setmulti(&w_cfg, NULL, 1, vals) == CFG_FAIL && cfg_setmulti(&w_cfg, w_name, 1, NULL) == CFG_FAIL && g_w_calls == 0, "cfg_setmulti with a NULL context, name or value array fails and stores nothing");
	}
	CANARY("wrap_setters");
}

/* print entry points: the whole-context and one-option printers start without an inherited filter, at the depth given
 * (0 for the unindented forms), on the caller's stream */
static FILE w_fp;
void h_wrap_print(void)
{
	int indent = nondet_int(), ret = nondet_int();
	memset(&w_cfg, 0, sizeof w_cfg); memset(&w_opt, 0, sizeof w_opt); g_w_ret = ret;
	g_w_calls = 0; CHECK("C19,C05", cfg_print(&w_cfg, &w_fp) == ret && g_w_calls == 1 && g_w_kind == 11 && g_w_cfg == &w_cfg && g_w_fp == &w_fp && g_w_pff == NULL && g_w_indent == 0, "cfg_print(cfg, fp) prints this context to this stream at depth 0 with no inherited filter");
	g_w_calls = 0; CHECK("C19", cfg_print_indent(&w_cfg, &w_fp, indent) == ret && g_w_calls == 1 && g_w_kind == 11 && g_w_cfg == &w_cfg && g_w_fp == &w_fp && g_w_pff == NULL && g_w_indent == indent, "cfg_print_indent(cfg, fp, d) prints this context at depth d with no inherited filter");
	g_w_calls = 0; CHECK("C19,C05", cfg_opt_print(&w_opt, &w_fp) == ret && g_w_calls == 1 && g_w_kind == 10 && g_w_opt == &w_opt && g_w_fp == &w_fp && g_w_pff == NULL && g_w_indent == 0, "cfg_opt_print(opt, fp) prints this option at depth 0 with no inherited filter");
	g_w_calls = 0; CHECK("C19", cfg_opt_print_indent(&w_opt, &w_fp, indent) == ret && g_w_calls == 1 && g_w_kind == 10 && g_w_opt == &w_opt && g_w_fp == &w_fp && g_w_pff == NULL && g_w_indent == indent, "cfg_opt_print_indent(opt, fp, d) prints this option at depth d with no inherited filter");
	CANARY("wrap_print");
}

/* schema enumeration: cfg_numopts / cfg_num / cfg_getnopt / cfg_name */
void h_wrap_enum(void)
{
	cfg_opt_t opts[4]; unsigned n = nondet_uint(), idx = nondet_uint(); cfg_opt_t *r;
	__CPROVER_assume(n <= 3);
	memset(opts, 0, sizeof opts); memset(&w_cfg, 0, sizeof w_cfg);
	for (unsigned i = 0; i < 3; i++) if (i < n) opts[i].name = w_name;
	w_cfg.opts = nondet_bool() ? opts : NULL; w_cfg.name = w_name;
	CHECK("C16,C01", cfg_numopts(opts) == (int)n && cfg_numopts(NULL) == 0, "cfg_numopts counts the options up to the terminator");
	CHECK("C16,C01", cfg_num(&w_cfg) == (w_cfg.opts ? n : 0) && cfg_num(NULL) == 0, "cfg_num(cfg) is the number of options of the context");
	r = cfg_getnopt(&w_cfg, idx);
	CHECK("C16,C01", r == ((w_cfg.opts && idx < n) ? &opts[idx] : NULL) && cfg_getnopt(NULL, idx) == NULL, "cfg_getnopt(cfg, i) is the i-th declared option, NULL beyond the last");
	CHECK("C01", cfg_name(&w_cfg) == w_name && cfg_name(NULL) == NULL, "cfg_name(cfg) is the context's name");
	CANARY("wrap_enum");
}

/* an unknown name reaches the opt-level operations as a NULL option (the by-name layer passes the resolver's answer on):
 * every one of them must fail / answer "nothing" (C09: an unknown name fails without effect) */
#ifdef CFGV_UNIT_NULL_OPT
void h_null_opt(void)
{
	unsigned idx = nondet_uint(); char t[2] = "t"; char *vals[1] = { t }; cfg_t c;
	memset(&c, 0, sizeof c); c.name = "root";
	CHECK("C09", cfg_opt_getnint(NULL, idx) == 0 && cfg_opt_getnfloat(NULL, idx) == 0 && cfg_opt_getnbool(NULL, idx) == cfg_false && cfg_opt_getnstr(NULL, idx) == NULL
		&& cfg_opt_getnptr(NULL, idx) == NULL && cfg_opt_getnsec(NULL, idx) == NULL && cfg_opt_gettsec(NULL, t) == NULL && cfg_opt_size(NULL) == 0
		&& cfg_opt_getcomment(NULL) == NULL && cfg_opt_name(NULL) == NULL, "getters on an unknown name answer zero / false / NULL");
	CHECK("C09,C10", cfg_opt_setnint(NULL, 1, idx) == CFG_FAIL && cfg_opt_setnfloat(NULL, 1.0, idx) == CFG_FAIL && cfg_opt_setnbool(NULL, cfg_true, idx) == CFG_FAIL
		&& cfg_opt_setnstr(NULL, t, idx) == CFG_FAIL && cfg_opt_setcomment(NULL, t) == CFG_FAIL && cfg_opt_setmulti(&c, NULL, 1, vals) == CFG_FAIL,
		"setters on an unknown name fail");
	CHECK("C09,C10", cfg_opt_rmnsec(NULL, idx) == CFG_FAIL && cfg_opt_rmtsec(NULL, t) == CFG_FAIL && cfg_free_value(NULL) == CFG_FAIL, "removers on an unknown name fail");
	{
		cfg_opt_t o; memset(&o, 0, sizeof o); o.name = "o"; o.type = CFGT_SEC; o.flags = CFGF_MULTI | CFGF_TITLE;
		CHECK("C09,C10", cfg_opt_rmtsec(&o, NULL) == CFG_FAIL && cfg_opt_gettsec(&o, NULL) == NULL && cfg_opt_setcomment(&o, NULL) == CFG_FAIL && o.comment == NULL
			&& cfg_opt_setmulti(&c, &o, 0, vals) == CFG_FAIL, "a missing title / annotation / value list fails without effect");
	}
	CHECK("C09", cfg_setopt(&c, NULL, "1") == NULL && cfg_setopt(NULL, NULL, "1") == NULL, "set-from-text on an unknown name fails");
	CHECK("C14", call_function(NULL, NULL, NULL) == CFG_FAIL, "a function call without context, option or argument holder fails (nothing is called)");
	CANARY("null_opt");
}
#endif
