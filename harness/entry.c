/* Units on the entry points and glue (C08 C07 C13 C14 C18 C01 C09): cfg_parse_fp, cfg_parse_buf, cfg_parse,
 * cfg_include, call_function, cfg_init_defaults, cfg_addtsec.  The parser core, the scanner helpers, the file layer
 * and the resolvers are contract carriers. */
#define CFGV_DUP_FAIL_GHOST
#include "ref_strings.h"
#include "common.h"
#include "ghost.h"

extern int g_pi_calls; extern cfg_t *g_pi_cfg[3]; extern int g_pi_level[3], g_pi_force[3]; extern cfg_opt_t *g_pi_opt[3]; extern int g_pi_ret[3], g_pi_scan_depth_at_call[3];
extern int g_set_calls, g_set_kind; extern cfg_opt_t *g_set_opt; extern long g_set_long; extern double g_set_double; extern cfg_bool_t g_set_bool; extern const char *g_set_str; extern unsigned g_set_index;
extern int g_so2_calls; extern cfg_t *g_so2_cfg; extern cfg_opt_t *g_so2_opt; extern const char *g_so2_value; extern cfg_value_t *g_so2_result;

/* ---- scanner helpers: ghost source stack */
int g_scan_depth; static int g_begin_calls, g_end_calls; static FILE *g_begin_fp; static int g_destroy;
void cfg_scan_fp_begin(FILE *fp) { g_begin_calls++; g_begin_fp = fp; g_scan_depth++; }
void cfg_scan_fp_end(void) { g_end_calls++; g_scan_depth--; }
int cfg_yylex(cfg_t *cfg) { (void)cfg; return 0; }
void cfg_yylex_destroy(void) { g_destroy++; }
static int g_linc_calls, g_linc_ret; static cfg_t *g_linc_cfg; static const char *g_linc_name;
int cfg_lexer_include(cfg_t *cfg, const char *fname) { g_linc_calls++; g_linc_cfg = cfg; g_linc_name = fname; return g_linc_ret; }
/* ---- files: ghost open-set */
static FILE g_f[2]; static _Bool g_open[2]; static int g_fopen_calls, g_fmemopen_calls, g_fclose_calls; _Bool in_open_ok; static const char *g_fopen_name; static const void *g_fmem_buf; static size_t g_fmem_len;
FILE *fopen(const char *n, const char *m) { (void)m; g_fopen_calls++; g_fopen_name = n; if (!in_open_ok) return NULL; g_open[0] = 1; return &g_f[0]; }
FILE *fmemopen(void *b, size_t l, const char *m) { (void)m; g_fmemopen_calls++; g_fmem_buf = b; g_fmem_len = l; if (!in_open_ok) return NULL; g_open[1] = 1; return &g_f[1]; }
int fclose(FILE *f) { g_fclose_calls++; for (int i = 0; i < 2; i++) if (f == &g_f[i]) { CHECK("C07", g_open[i], "a file handle is closed at most once"); g_open[i] = 0; } return 0; }
static void reset(void)
{
	g_scan_depth = 0; g_begin_calls = g_end_calls = 0; g_pi_calls = 0; g_fopen_calls = g_fmemopen_calls = g_fclose_calls = 0; g_open[0] = g_open[1] = 0;
	g_diag = 0; g_set_calls = 0; g_so2_calls = 0; g_linc_calls = 0; cfgv_dup_fail = 0;
}
static void mk(cfg_t *cfg) { memset(cfg, 0, sizeof *cfg); cfg->name = "root"; cfg->errfunc = cfgv_errfunc; }

/* contract::cfg_parse_fp(cfg, fp): NULL arguments -> parse error, nothing touched.  Otherwise: a missing file name becomes
 * "FILE"; line 1; exactly one source is pushed, the top-level parse (level 0, no forced state) runs inside it, exactly
 * one source is popped - on EVERY outcome (C08); a rejected parse gives CFG_PARSE_ERROR, anything else CFG_SUCCESS */
void h_parse_fp(void)
{
	cfg_t cfg; int rc; _Bool hasname = nondet_bool(); char *name = NULL;
	mk(&cfg); reset();
	if (hasname) { name = cfgv_alloc(2); name[0] = 'n'; name[1] = 0; cfg.filename = name; }
	cfg.line = nondet_int();
	g_pi_ret[0] = nondet_int(); __CPROVER_assume(g_pi_ret[0] == 0 || g_pi_ret[0] == -1 || g_pi_ret[0] == 1);
	cfgv_dup_fail = nondet_bool();
	rc = cfg_parse_fp(&cfg, &g_f[0]);
	if (!hasname && cfgv_dup_fail) {
		CHECK("C18", rc == CFG_PARSE_ERROR && g_begin_calls == 0 && g_pi_calls == 0, "no memory for the default file name: parse error, nothing started");
	} else {
		CHECK("C08,C13", g_begin_calls == 1 && g_begin_fp == &g_f[0] && g_end_calls == 1 && g_scan_depth == 0, "every parse pushes exactly one source and pops exactly one, whatever the outcome");
		CHECK("C06", cfg.line == 1 || g_pi_calls == 0, "line numbering restarts at 1 for every parse (the nested parse does not move it in this unit)");
		CHECK("C01", g_pi_calls == 1 && g_pi_cfg[0] == &cfg && g_pi_level[0] == 0 && g_pi_force[0] == -1 && g_pi_opt[0] == NULL && g_pi_scan_depth_at_call[0] == 1, "the text is parsed at top level, inside the pushed source");
		CHECK("C06,C01", rc == (g_pi_ret[0] == 1 ? CFG_PARSE_ERROR : CFG_SUCCESS), "a rejected text gives the parse-error code, an accepted one success");
		CHECK("C06", cfg.filename != NULL && (hasname ? cfg.filename == name : strcmp(cfg.filename, "FILE") == 0), "a stream without a name is reported as FILE; a given name is kept");
		if (!hasname && cfg.filename) free(cfg.filename);
	}
	if (name) free(name);
	CHECK("C08", cfg_parse_fp(NULL, &g_f[0]) == CFG_PARSE_ERROR && cfg_parse_fp(&cfg, NULL) == CFG_PARSE_ERROR && g_begin_calls <= 1, "NULL context or stream: parse error, no source pushed");
	CANARY("parse_fp");
}
/* contract::cfg_parse_buf(cfg, text) */
void h_parse_buf(void)
{
	cfg_t cfg; int rc; char text[3]; char *old = NULL; _Bool hasold = nondet_bool();
	mk(&cfg); reset();
	text[0] = nondet_char(); text[1] = nondet_char(); text[2] = 0;
	if (hasold) { old = cfgv_alloc(2); old[0] = 'o'; old[1] = 0; cfg.filename = old; }
	in_open_ok = nondet_bool(); cfgv_dup_fail = nondet_bool();
	g_pi_ret[0] = nondet_int(); __CPROVER_assume(g_pi_ret[0] == -1 || g_pi_ret[0] == 1);
	rc = cfg_parse_buf(&cfg, text);
	if (cfgv_dup_fail) {
		CHECK("C18", rc == CFG_PARSE_ERROR && cfg.filename == old && g_fmemopen_calls == 0, "no memory for the buffer's name: parse error, context untouched");
		if (old) free(old);
	} else {
		CHECK("C06", cfg.filename != NULL && strcmp(cfg.filename, "[buf]") == 0, "a buffer is reported under the name [buf] (the previous name is released)");
		if (!in_open_ok) CHECK("C01", rc == (text[0] ? CFG_FILE_ERROR : CFG_SUCCESS) && g_pi_calls == 0, "a buffer that cannot be opened as a stream is a file error unless it is empty");
		else {
			CHECK("C01,C06", g_pi_calls == 1 && rc == (g_pi_ret[0] == 1 ? CFG_PARSE_ERROR : CFG_SUCCESS) && g_fmem_buf == text && g_fmem_len == strlen(text), "the whole buffer is parsed once; the verdict is passed on");
			CHECK("C07", g_fclose_calls == 1 && !g_open[1], "the stream opened on the buffer is closed exactly once");
			CHECK("C08", g_begin_calls == 1 && g_end_calls == 1, "one source pushed, one popped");
		}
		free(cfg.filename);
	}
	CHECK("C01", cfg_parse_buf(NULL, text) == CFG_PARSE_ERROR && cfg_parse_buf(&cfg, NULL) == CFG_SUCCESS, "NULL context: error; NULL buffer: nothing to do");
	CANARY("parse_buf");
}
/* contract::cfg_parse(cfg, name): the name is resolved through the search path when the context has one, else by
 * tilde expansion (the same two ways an include uses, C17); unresolved or unopenable -> CFG_FILE_ERROR; the file is
 * closed exactly once after the parse */
extern int g_sp_calls, g_te_calls; extern const char *g_res_name; extern cfg_searchpath_t *g_sp_list; _Bool in_resolved;
char *cfgv_resolved(void) { char *r; if (!in_resolved) return NULL; r = cfgv_alloc(2); r[0] = 'r'; r[1] = 0; return r; }
void h_parse_file(void)
{
	cfg_t cfg; int rc; char *old; static char nm[2] = "n"; _Bool haspath = nondet_bool();
	mk(&cfg); reset();
	old = cfgv_alloc(2); old[0] = 'o'; old[1] = 0; cfg.filename = old;
	cfg.path = haspath ? (cfg_searchpath_t *)&g_f[1] : NULL;
	in_resolved = nondet_bool(); in_open_ok = nondet_bool(); g_sp_calls = g_te_calls = 0;
	g_pi_ret[0] = nondet_int(); __CPROVER_assume(g_pi_ret[0] == -1 || g_pi_ret[0] == 1);
	rc = cfg_parse(&cfg, nm);
	CHECK("C17", haspath ? (g_sp_calls == 1 && g_te_calls == 0 && g_sp_list == cfg.path && g_res_name == nm) : (g_te_calls == 1 && g_sp_calls == 0 && g_res_name == nm), "a top-level file name is resolved through the search path when there is one, else by tilde expansion");
	if (!in_resolved) { CHECK("C17", rc == CFG_FILE_ERROR && cfg.filename == old && g_fopen_calls == 0, "an unresolved name is a file error; the context keeps its state"); free(old); }
	else {
		CHECK("C06", cfg.filename != NULL && cfg.filename[0] == 'r', "the resolved name becomes the context's file name (the previous one is released)");
		if (!in_open_ok) CHECK("C17", rc == CFG_FILE_ERROR && g_pi_calls == 0, "an unopenable file is a file error");
		else {
			CHECK("C01,C06", g_pi_calls == 1 && rc == (g_pi_ret[0] == 1 ? CFG_PARSE_ERROR : CFG_SUCCESS), "the file is parsed once; the verdict is passed on");
			CHECK("C07", g_fclose_calls == 1 && !g_open[0], "the file is closed exactly once");
		}
		free(cfg.filename);
	}
	CHECK("C17", cfg_parse(NULL, nm) == CFG_FILE_ERROR && cfg_parse(&cfg, NULL) == CFG_FILE_ERROR, "NULL arguments: file error");
	CANARY("parse_file");
}

/* contract::cfg_include (the built-in include function): exactly one argument, handed to the scanner's include; its
 * verdict is the function's verdict; a wrong argument count is reported and fails */
void h_cfg_include(void)
{
	cfg_t cfg; cfg_opt_t o; const char *argv[2] = { "a", "b" }; int argc = nondet_int(), rc;
	mk(&cfg); reset(); memset(&o, 0, sizeof o);
	g_linc_ret = nondet_int();
	rc = cfg_include(&cfg, &o, argc, argv);
	if (argc != 1) CHECK("C13,C06", rc != 0 && g_diag >= 1 && g_linc_calls == 0, "include() with a wrong number of arguments is a reported failure");
	else CHECK("C13,C14", rc == g_linc_ret && g_linc_calls == 1 && g_linc_cfg == &cfg && g_linc_name == argv[0], "include(name) pushes exactly that file through the scanner; its verdict binds");
	CHECK("C13", cfg_include(NULL, &o, 1, argv) != 0 && cfg_include(&cfg, &o, 1, NULL) != 0, "NULL arguments fail");
	CANARY("cfg_include");
}

/* contract::call_function(cfg, opt, args): the callback receives (cfg, opt, argc == number of collected arguments,
 * argv[i] == text of argument i, in order); its result is the verdict; the collected arguments are released afterwards */
static int g_fn_calls, g_fn_argc, g_fn_ret; static const char *g_fn_argv[3]; static cfg_t *g_fn_cfg; static cfg_opt_t *g_fn_opt;
static int cfgv_func(cfg_t *cfg, cfg_opt_t *opt, int argc, const char **argv)
{
	g_fn_calls++; g_fn_cfg = cfg; g_fn_opt = opt; g_fn_argc = argc;
	for (int i = 0; i < 3; i++) g_fn_argv[i] = i < argc ? argv[i] : NULL;
	return g_fn_ret;
}
static void b_call_function(unsigned n)
{
	cfg_t cfg; cfg_opt_t o, args; int rc; char *texts[3];
	mk(&cfg); reset(); memset(&o, 0, sizeof o); memset(&args, 0, sizeof args);
	o.name = "f"; o.type = CFGT_FUNC; o.func = cfgv_func;
	args.type = CFGT_STR; args.nvalues = n; args.values = n ? cfgv_alloc(n * sizeof(cfg_value_t *)) : NULL;
	for (unsigned i = 0; i < n; i++) { args.values[i] = cfgv_alloc(sizeof(cfg_value_t)); texts[i] = cfgv_alloc(2); texts[i][0] = (char)('a' + i); texts[i][1] = 0; args.values[i]->string = texts[i]; }
	g_fn_calls = 0; g_fn_ret = nondet_int();
	rc = call_function(&cfg, &o, &args);
#ifdef CFGV_NO_ALLOC_FAILURE
	CHECK("C14", g_fn_calls == 1, "the function option's callback is called (no allocation failure in this unit)");
#endif
	if (g_fn_calls == 0) {
		CHECK("C18", rc == CFG_FAIL, "no memory for the argument vector: the call fails without invoking the callback");
		cfg_free_value(&args);
	} else {
		CHECK("C14", g_fn_calls == 1 && g_fn_cfg == &cfg && g_fn_opt == &o && g_fn_argc == (int)n, "the function option's callback is called once with the number of collected arguments");
		for (unsigned i = 0; i < 3; i++) if (i < n) CHECK("C14", g_fn_argv[i] == texts[i], "the callback receives exactly the decoded arguments, in order");
		CHECK("C14", rc == g_fn_ret, "the callback's result is the verdict");
		CHECK("C07,C14,C01", args.nvalues == 0 && args.values == NULL, "the collected arguments are released after the call (nothing is left over for the next call)");
	}
}
void h_call_function(void)
{
	unsigned k = nondet_uint();
	if (k == 0) b_call_function(0); else if (k == 1) b_call_function(1); else b_call_function(2);
	CANARY("call_function");
}

/* contract::cfg_addtsec(cfg, name, title): a section with that title exists (under the context's case rule) -> NULL,
 * nothing touched; unknown name -> reported, NULL; otherwise the store's section arm is invoked once with the title and
 * the new instance is given the context's search path, line 1 and error function */
int g_initdef_flags_seen;
static void b_addtsec(_Bool ctx_nocase, _Bool opt_nocase)
{
	cfg_t cfg, sec, newsec; cfg_opt_t o; cfg_value_t v, *vp = &v, nv; char have[2], ask[2]; cfg_t *r; _Bool same_title;
	mk(&cfg); reset(); memset(&o, 0, sizeof o); memset(&sec, 0, sizeof sec); memset(&newsec, 0, sizeof newsec);
	cfg.flags = ctx_nocase ? CFGF_NOCASE : 0; cfg.path = (cfg_searchpath_t *)&g_f[0];
	o.name = "s"; o.type = CFGT_SEC; o.flags = CFGF_MULTI | CFGF_TITLE | (opt_nocase ? CFGF_NOCASE : 0); o.nvalues = 1; o.values = &vp;
	have[0] = nondet_char(); have[1] = 0; ask[0] = nondet_char(); ask[1] = 0; __CPROVER_assume(have[0] != 0 && ask[0] != 0);
	sec.title = have; v.section = &sec;
	g_getopt_result = nondet_bool() ? &o : NULL;
	nv.section = &newsec; g_so2_result = nondet_bool() ? &nv : NULL;
	same_title = ctx_nocase ? cfgv_lc((unsigned char)have[0]) == cfgv_lc((unsigned char)ask[0]) : have[0] == ask[0];
	r = cfg_addtsec(&cfg, "s", ask);
	if (!g_getopt_result) CHECK("C09", r == NULL && g_so2_calls == 0, "adding a section to an unknown option fails");
	else if (same_title) {
		if (ctx_nocase && !opt_nocase && have[0] != ask[0])
			KFCHECK("C09-addtsec-case-rule-mismatch", "C09,C10", r == NULL && g_so2_calls == 0, "adding a section whose title exists under the context's case rule fails without effect");
		else
			CHECK("C09,C10", r == NULL && g_so2_calls == 0, "adding a section whose title exists fails without effect");
	} else if (!(opt_nocase && !ctx_nocase && cfgv_lc((unsigned char)have[0]) == cfgv_lc((unsigned char)ask[0]))) {
		CHECK("C09", g_so2_calls == 1 && g_so2_cfg == &cfg && g_so2_opt == &o && g_so2_value == ask, "a new title is handed to the store's section arm, once");
		if (g_so2_result) CHECK("C09,C06", r == &newsec && newsec.path == cfg.path && newsec.line == 1 && newsec.errfunc == cfg.errfunc, "the new instance gets the context's search path, line 1 and error function");
		else CHECK("C09,C18", r == NULL, "a failing store makes the addition fail");
	}
}
void h_addtsec(void)
{
	unsigned k = nondet_uint();
	if (k == 0) b_addtsec(0, 0); else if (k == 1) b_addtsec(1, 1); else if (k == 2) b_addtsec(1, 0); else b_addtsec(0, 1);
	CANARY("addtsec");
}

/* ------------------------------------------------------------------------------------------------ cfg_init_defaults
 * contract (one option, every kind): simple or NODEFAULT options are left alone; a scalar default is stored through the
 * typed setter at index 0; list defaults and textual defaults are parsed from the default text with the right forced
 * state (3 list, 0 function, 2 scalar) inside their own source (pushed and popped, stream closed); afterwards the option
 * is marked "holds its default" (RESET set, MODIFIED clear, DEFINIT set); a single section gets its one instance through
 * the store; multi sections get nothing.  The process is never aborted (C18). */
static int g_abort_calls;
void abort(void)
{
	g_abort_calls++;
	KFCHECK("C18-abort-on-unparsable-default", "C18,C02", 0, "a default value that cannot be parsed (or an allocation failure while parsing it) is reported through a return value, not by aborting the process");
	__CPROVER_assume(0);
}
static int k_dtype, k_dflags; static _Bool k_dsimple, k_dparsed;
static void b_init_defaults(void)
{
	cfg_t cfg; cfg_opt_t opts[2]; static char ptext[2] = "7"; static long simple_store; cfg_value_t nv; cfg_t newsec;
	mk(&cfg); reset(); memset(opts, 0, sizeof opts); memset(&newsec, 0, sizeof newsec);
	opts[0].name = "o"; opts[0].type = k_dtype; opts[0].flags = k_dflags;
	opts[0].def.number = nondet_long();
	if (k_dtype == CFGT_FLOAT) opts[0].def.fpnumber = 1.5;
	if (k_dtype == CFGT_BOOL) opts[0].def.boolean = cfg_true;
	if (k_dtype == CFGT_STR) opts[0].def.string = "d";
	if (k_dparsed) opts[0].def.parsed = ptext;
	if (k_dsimple) opts[0].simple_value.number = &simple_store;
	cfg.opts = opts;
	in_open_ok = 1; g_abort_calls = 0;
	/* the nested parse accepts here; its rejection is the finding unit below */
	g_pi_ret[0] = nondet_bool() ? 0 : -1; g_pi_ret[1] = -1; g_pi_ret[2] = -1;
	nv.section = &newsec; g_so2_result = &nv;

	cfg_init_defaults(&cfg);

	{
		_Bool parsed_kind = (k_dflags & CFGF_LIST) || k_dparsed;
		int flags = opts[0].flags;
		if (k_dsimple || (k_dflags & CFGF_NODEFAULT)) {
			CHECK("C01", flags == k_dflags && g_set_calls == 0 && g_so2_calls == 0 && g_pi_calls == 0, "simple options and options without default are left alone");
		} else if (k_dtype == CFGT_SEC) {
			if (k_dflags & CFGF_MULTI) CHECK("C01", g_so2_calls == 0 && flags == k_dflags, "a multi section starts without instances");
			else CHECK("C01", g_so2_calls == 1 && g_so2_cfg == &cfg && g_so2_opt == &opts[0] && g_so2_value == NULL && (flags & CFGF_DEFINIT), "a single section gets its one instance when the context is created");
		} else if (parsed_kind && k_dparsed) {
			int want_state = (k_dflags & CFGF_LIST) ? 3 : (k_dtype == CFGT_FUNC ? 0 : 2);
			CHECK("C01", g_pi_calls >= 1 && g_pi_cfg[0] == &cfg && g_pi_level[0] == 1 && g_pi_force[0] == want_state && g_pi_opt[0] == &opts[0], "a textual default is parsed into its option with the right forced state (list, function call or scalar value)");
			CHECK("C01", g_pi_calls == 1 || (g_pi_ret[0] == 0 && g_pi_force[1] == -1 && g_pi_opt[1] == &opts[0]), "the default text is parsed to its end");
			CHECK("C08,C07", g_begin_calls == 1 && g_end_calls == 1 && g_fmemopen_calls == 1 && g_fclose_calls == 1 && !g_open[1] && g_fmem_buf == ptext, "the default text is scanned in its own source: pushed, popped, stream closed");
			CHECK("C01", (flags & CFGF_RESET) && !(flags & CFGF_MODIFIED) && (flags & CFGF_DEFINIT), "afterwards the option is marked as holding its default");
			CHECK("C01", g_set_calls == 0, "no scalar setter is used for a textual default");
		} else if (parsed_kind) {
			CHECK("C01", g_pi_calls == 0 && g_set_calls == 0 && (flags & CFGF_DEFINIT) && !(flags & CFGF_RESET), "a list without default text stays empty and is not marked as a default");
		} else {
			int want_calls = (k_dtype == CFGT_INT || k_dtype == CFGT_FLOAT || k_dtype == CFGT_BOOL || k_dtype == CFGT_STR) ? 1 : 0;
			CHECK("C01", g_set_calls == want_calls && g_pi_calls == 0, "a scalar default is stored through the typed setter, once");
			if (want_calls) {
				CHECK("C01", g_set_opt == &opts[0] && g_set_index == 0 && g_set_kind == k_dtype, "the default goes to index 0 of its own option");
				if (k_dtype == CFGT_INT) CHECK("C01", g_set_long == opts[0].def.number, "the integer default is the declared one");
				if (k_dtype == CFGT_FLOAT) CHECK("C01", g_set_double == 1.5, "the float default is the declared one");
				if (k_dtype == CFGT_BOOL) CHECK("C01", g_set_bool == cfg_true, "the boolean default is the declared one");
				if (k_dtype == CFGT_STR) CHECK("C01", g_set_str == opts[0].def.string, "the string default is the declared one");
			}
			CHECK("C01", (flags & CFGF_RESET) && !(flags & CFGF_MODIFIED) && (flags & CFGF_DEFINIT), "afterwards the option is marked as holding its default");
		}
	}
}
#define IDF(t, f, s, p) do { k_dtype = (t); k_dflags = (f); k_dsimple = (s); k_dparsed = (p); b_init_defaults(); } while (0)
void h_init_defaults(void)
{
	unsigned k = nondet_uint();
	if (k == 0) IDF(CFGT_INT, 0, 0, 0); else if (k == 1) IDF(CFGT_FLOAT, CFGF_MODIFIED, 0, 0); else if (k == 2) IDF(CFGT_BOOL, 0, 0, 0); else if (k == 3) IDF(CFGT_STR, 0, 0, 0);
	else if (k == 4) IDF(CFGT_INT, CFGF_NODEFAULT, 0, 0); else if (k == 5) IDF(CFGT_INT, 0, 1, 0); else if (k == 6) IDF(CFGT_INT, CFGF_LIST, 0, 1); else if (k == 7) IDF(CFGT_STR, CFGF_LIST, 0, 0);
	else if (k == 8) IDF(CFGT_FUNC, 0, 0, 1); else if (k == 9) IDF(CFGT_INT, 0, 0, 1); else if (k == 10) IDF(CFGT_SEC, 0, 0, 0); else if (k == 11) IDF(CFGT_SEC, CFGF_MULTI, 0, 0);
	else if (k == 12) IDF(CFGT_PTR, 0, 0, 0); else IDF(CFGT_FUNC, 0, 0, 0);
	CANARY("init_defaults");
}
/* a schema with distinct option names is accepted silently; (C01 C06: creating a context never produces a diagnostic for a
 * well-formed schema - a diagnostic is the report of a rejection).  Two options without defaults, names one byte. */
void h_init_defaults_names(void)
{
	cfg_t cfg; cfg_opt_t opts[3]; char n0[2], n1[2]; _Bool nocase = nondet_bool();
	mk(&cfg); reset(); memset(opts, 0, sizeof opts);
	n0[0] = nondet_char(); n0[1] = 0; n1[0] = nondet_char(); n1[1] = 0;
	__CPROVER_assume(n0[0] != 0 && n1[0] != 0);
	opts[0].name = n0; opts[0].type = CFGT_INT; opts[0].flags = CFGF_NODEFAULT | (nocase ? CFGF_NOCASE : 0);
	opts[1].name = n1; opts[1].type = CFGT_INT; opts[1].flags = CFGF_NODEFAULT;
	cfg.opts = opts; g_diag = 0;
	cfg_init_defaults(&cfg);
	{
		char a = n0[0], b = n1[0];
		_Bool same = nocase ? ((a >= 'A' && a <= 'Z' ? a - 'A' + 'a' : a) == (b >= 'A' && b <= 'Z' ? b - 'A' + 'a' : b)) : a == b;
		CHECK("C01,C06", same || g_diag == 0, "a schema whose option names differ (under the options' case rule) is accepted without any diagnostic");
		CHECK("C01", g_set_calls == 0 && g_pi_calls == 0 && opts[0].flags == (CFGF_NODEFAULT | (nocase ? CFGF_NOCASE : 0)) && opts[1].flags == CFGF_NODEFAULT, "options without default are left alone, whatever their number");
	}
	CANARY("init_defaults_names");
}
/* an unparsable default text aborts the process: recorded finding (the statement C18 wants failures reported by return values) */
void h_init_defaults_abort(void)
{
	cfg_t cfg; cfg_opt_t opts[2]; static char ptext[2] = "7";
	mk(&cfg); reset(); memset(opts, 0, sizeof opts);
	opts[0].name = "o"; opts[0].type = CFGT_INT; opts[0].flags = CFGF_LIST; opts[0].def.parsed = ptext; cfg.opts = opts;
	in_open_ok = 1; g_abort_calls = 0; g_pi_ret[0] = 1;       /* the nested parse rejects (bad default text, or no memory) */
	cfg_init_defaults(&cfg);
	CANARY("init_defaults_abort");
}
