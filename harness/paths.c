/* Units on file-name resolution (C17 C13 C07 C18): cfg_add_searchpath, cfg_searchpath, cfg_make_fullpath,
 * cfg_tilde_expand, cfg_parse.  The file system (stat), the passwd database and snprintf are assumed contracts
 * (carriers with ghost verdicts). */
#define CFGV_DUP_FAIL_GHOST
#include "ref_strings.h"
#include "common.h"
#include <sys/stat.h>
#include <pwd.h>

#ifndef NAMEN
#define NAMEN 3
#endif
char in_name[NAMEN + 1];
static void name_input(void) { for (unsigned i = 0; i < NAMEN; i++) in_name[i] = nondet_char(); in_name[NAMEN] = 0; }

/* ---- stat: ghost verdict per call, probed name recorded */
static int g_stat_calls; static const char *g_stat_name[2]; static char g_stat_seen[2][8]; int in_stat_kind[2];   /* 0 missing, 1 regular file, 2 directory */
int stat(const char *path, struct stat *st)
{
	int k = g_stat_calls < 2 ? in_stat_kind[g_stat_calls] : 0;
	if (g_stat_calls < 2) { g_stat_name[g_stat_calls] = path; for (int i = 0; i < 7; i++) { g_stat_seen[g_stat_calls][i] = path[i]; if (!path[i]) break; } g_stat_seen[g_stat_calls][7] = 0; }
	g_stat_calls++;
	CHECK("C17", path != NULL && __CPROVER_r_ok(path, 1), "the file system is asked about a live string");
	if (k == 0) { errno = ENOENT; return -1; }
	st->st_mode = k == 1 ? S_IFREG : S_IFDIR;
	return 0;
}
/* ---- snprintf for "%s/%s" */
int snprintf(char *buf, size_t n, const char *fmt, ...)
{
	va_list ap; const char *a, *b; size_t la, lb, i, o = 0;
	__CPROVER_assert(fmt[0] == '%' && fmt[1] == 's' && fmt[2] == '/' && fmt[3] == '%' && fmt[4] == 's' && fmt[5] == 0, "BOUND: snprintf carrier knows the format %s/%s only");
	va_start(ap, fmt); a = va_arg(ap, const char *); b = va_arg(ap, const char *); va_end(ap);
	la = strlen(a); lb = strlen(b);
	for (i = 0; i < la; i++, o++) if (o + 1 < n) buf[o] = a[i];
	if (o + 1 < n) buf[o] = '/'; o++;
	for (i = 0; i < lb; i++, o++) if (o + 1 < n) buf[o] = b[i];
	if (n > 0) buf[o < n ? o : n - 1] = 0;
	return (int)o;
}

/* ------------------------------------------------------------------------------------------------ cfg_make_fullpath */
void h_make_fullpath(void)
{
	char dir[3], *r; _Bool fail;
	dir[0] = nondet_char(); dir[1] = nondet_char(); dir[2] = 0;
	name_input();
	fail = nondet_bool();
	r = cfg_make_fullpath(dir, in_name);
#ifdef CFGV_NO_ALLOC_FAILURE
	CHECK("C17", r != NULL, "a directory and a name give a path (no allocation failure in this unit)");
#endif
	if (r) {
		size_t ld = strlen(dir), lf = strlen(in_name);
		_Bool eq = strlen(r) == ld + 1 + lf && r[ld] == '/';
		for (size_t i = 0; i < 2; i++) if (i < ld && r[i] != dir[i]) eq = 0;
		for (size_t i = 0; i < NAMEN; i++) if (i < lf && r[ld + 1 + i] != in_name[i]) eq = 0;
		CHECK("C17", eq && r != dir && r != in_name, "the full path is a fresh string: directory, '/', name");
		free(r);
	}
	CHECK("C17", cfg_make_fullpath(NULL, in_name) == NULL && cfg_make_fullpath(dir, NULL) == NULL, "NULL arguments give no path");
	(void)fail;
	CANARY("make_fullpath");
}

/* ------------------------------------------------------------------------------------------------ cfg_searchpath
 * contract::cfg_searchpath(list, name)     (list = newest directory first; "oldest first" means: the tail has priority)
 *   NULL list or name -> NULL
 *   absolute name     -> a fresh copy of the name if it is a regular file, else NULL; the list is not consulted
 *   relative name     -> what the REST of the list finds (older directories first) if anything; otherwise
 *                        "<this directory>/<name>" (fresh) if that is a regular file; otherwise NULL
 *   directories and missing files never match; nothing is leaked
 * The function is recursive: the unit runs the extracted copy cfg_searchpath_top; the nested call is this contract. */
static int g_sp_rec_calls; static cfg_searchpath_t *g_sp_rec_list; static const char *g_sp_rec_name; _Bool in_rest_finds;
static char *g_sp_rec_result;
static char *cfgv_rec_cfg_searchpath(cfg_searchpath_t *p, const char *file)
{
	g_sp_rec_calls++; g_sp_rec_list = p; g_sp_rec_name = file;
	if (!p || !file) { errno = EINVAL; return NULL; }
	if (!in_rest_finds) return NULL;
	g_sp_rec_result = cfgv_alloc(2); g_sp_rec_result[0] = 'R'; g_sp_rec_result[1] = 0;
	return g_sp_rec_result;
}
#include "extracted_cfg_searchpath.inc"
void h_searchpath(void)
{
	cfg_searchpath_t node, older; char dir[2]; char *r; _Bool has_older = nondet_bool();
	dir[0] = nondet_char(); dir[1] = 0; __CPROVER_assume(dir[0] != 0);
	node.dir = dir; node.next = has_older ? &older : NULL; older.dir = dir; older.next = NULL;
	name_input();
	in_stat_kind[0] = nondet_int(); in_stat_kind[1] = nondet_int();
	__CPROVER_assume(in_stat_kind[0] >= 0 && in_stat_kind[0] <= 2 && in_stat_kind[1] >= 0 && in_stat_kind[1] <= 2);
	in_rest_finds = nondet_bool();
	g_stat_calls = 0; g_sp_rec_calls = 0; cfgv_dup_fail = 0;

	r = cfg_searchpath_top(&node, in_name);

	if (in_name[0] == '/') {
		CHECK("C17", g_sp_rec_calls == 0, "an absolute name bypasses the search path");
		CHECK("C17,C13", cfgv_dup_fail || (g_stat_calls == 1 && strcmp(g_stat_seen[0], in_name) == 0), "an absolute name is probed itself, once");
		CHECK("C17,C13", (r != NULL) == (g_stat_calls == 1 && in_stat_kind[0] == 1), "an absolute name resolves exactly when it is a regular file (directories and missing files never match)");
		if (r) CHECK("C17", r != in_name && strcmp(r, in_name) == 0, "the result is a fresh copy of the absolute name");
	} else {
		CHECK("C17", g_sp_rec_calls == 1 && g_sp_rec_list == node.next && g_sp_rec_name == in_name, "a relative name is first looked up in the directories added earlier");
		if (has_older && in_rest_finds) {
			CHECK("C17", r == g_sp_rec_result && g_stat_calls == 0, "the first directory in the order of addition wins: a hit among the older directories is returned as it is");
		} else {
			CHECK("C17", g_stat_calls == 1, "then this directory is probed, once");
			CHECK("C17", (r != NULL) == (in_stat_kind[0] == 1), "this directory matches exactly when it holds a regular file of that name (directories and missing files never match)");
			if (r) CHECK("C17", strlen(r) == 2 + strlen(in_name) && r[0] == dir[0] && r[1] == '/' && strcmp(r + 2, in_name) == 0, "the result is the fresh full path <directory>/<name>");
		}
	}
	if (r) free(r);
	CHECK("C17", cfg_searchpath_top(NULL, in_name) == NULL && cfg_searchpath_top(&node, NULL) == NULL, "NULL arguments: not found");
	CANARY("searchpath");
}

/* ------------------------------------------------------------------------------------------------ cfg_tilde_expand
 * contract::cfg_tilde_expand(name)
 *   no leading '~'                 -> fresh copy of name
 *   "~" or "~/rest"                -> home directory of the effective user + "/rest" (that account unknown: copy of name)
 *   "~user" or "~user/rest"        -> getpwnam is asked for exactly "user" (a NUL-terminated string inside its allocation),
 *                                     result home + "/rest"; unknown user -> copy of name
 *   the result is fresh, depends on nothing but the argument and the passwd answers (no cached state) */
static struct passwd g_pw; static char g_home[2]; _Bool in_pw_known; static int g_pwuid_calls, g_pwnam_calls; static char g_pwnam_seen[NAMEN + 1]; static _Bool g_pwnam_terminated;
uid_t geteuid(void) { return 1000; }
struct passwd *getpwuid(uid_t uid) { (void)uid; g_pwuid_calls++; g_pw.pw_dir = g_home; return in_pw_known ? &g_pw : NULL; }
struct passwd *getpwnam(const char *name)
{
	size_t sz = __CPROVER_OBJECT_SIZE(name) - __CPROVER_POINTER_OFFSET(name); _Bool term = 0;
	g_pwnam_calls++;
	for (size_t i = 0; i < NAMEN + 1; i++) if (i < sz && !term) { g_pwnam_seen[i] = name[i]; if (name[i] == 0) term = 1; }
	g_pwnam_terminated = term;
	g_pw.pw_dir = g_home;
	return in_pw_known ? &g_pw : NULL;
}
void h_tilde_expand(void)
{
	char *r; size_t n;
	name_input();
	g_home[0] = nondet_char(); g_home[1] = 0; __CPROVER_assume(g_home[0] != 0);
	in_pw_known = nondet_bool(); g_pwuid_calls = g_pwnam_calls = 0; cfgv_dup_fail = 0;
	n = strlen(in_name);
	r = cfg_tilde_expand(in_name);
#ifdef CFGV_NO_ALLOC_FAILURE
	CHECK("C17", r != NULL, "every name expands to a string (no allocation failure in this unit)");
#endif
	if (r == NULL) { CANARY("tilde_expand"); return; }      /* allocation failure (C18): nothing to release */
	CHECK("C17", r != in_name, "the expanded name is a fresh string");
	if (in_name[0] != '~') {
		CHECK("C17", strcmp(r, in_name) == 0 && g_pwuid_calls == 0 && g_pwnam_calls == 0, "a name without leading tilde is copied as it is");
	} else if (in_name[1] == '/' || in_name[1] == 0) {
		CHECK("C17", g_pwuid_calls == 1 && g_pwnam_calls == 0, "a bare tilde asks for the current account, every time (no cached answer)");
		if (in_pw_known) CHECK("C17", r[0] == g_home[0] && strcmp(r + 1, in_name + 1) == 0, "a bare tilde is replaced by the current account's home directory");
		else CHECK("C17", strcmp(r, in_name) == 0, "unknown account: the name is left unchanged");
	} else {
		size_t ul = 1; while (in_name[ul] && in_name[ul] != '/') ul++;      /* "~user" spans [1, ul) */
		CHECK("C17", g_pwnam_calls == 1 && g_pwuid_calls == 0, "~user asks the passwd database for that account, once");
		CHECK("C17,C02", g_pwnam_terminated, "the account name handed to the passwd database is a NUL-terminated string inside its allocation");
		if (g_pwnam_terminated) {
			_Bool eq = g_pwnam_seen[ul - 1] == 0;
			for (size_t i = 0; i < NAMEN; i++) if (i + 1 < ul && g_pwnam_seen[i] != in_name[i + 1]) eq = 0;
			CHECK("C17", eq, "the account asked for is exactly the text between the tilde and the first slash");
		}
		if (in_pw_known) CHECK("C17", r[0] == g_home[0] && strcmp(r + 1, in_name + ul) == 0, "~user is replaced by that account's home directory");
		else CHECK("C17", strcmp(r, in_name) == 0, "unknown user: the name is left unchanged");
	}
	(void)n;
	free(r);
	CANARY("tilde_expand");
}

/* ------------------------------------------------------------------------------------------------ cfg_add_searchpath
 * prepends a node holding the tilde-expanded directory; failure (NULL arguments, allocation) -> CFG_FAIL, list unchanged,
 * nothing leaked */
void h_add_searchpath(void)
{
	cfg_t cfg; cfg_searchpath_t old; char dir[2] = "d"; int rc;
	memset(&cfg, 0, sizeof cfg);
	old.dir = dir; old.next = NULL;
	cfg.path = nondet_bool() ? &old : NULL;
	{
		cfg_searchpath_t *before = cfg.path;
		g_home[0] = 'h'; g_home[1] = 0; in_pw_known = 1; cfgv_dup_fail = nondet_bool();
		name_input();
		__CPROVER_assume(in_name[0] != '~');
		rc = cfg_add_searchpath(&cfg, in_name);
#ifdef CFGV_NO_ALLOC_FAILURE
		CHECK("C17", cfgv_dup_fail || rc == CFG_SUCCESS, "adding a directory succeeds (no allocation failure in this unit)");
#endif
		if (rc == CFG_SUCCESS) {
			CHECK("C17,C13", cfg.path != NULL && cfg.path != before && cfg.path->next == before, "a new directory is put in front of the list (lookups walk it oldest first)");
			CHECK("C17,C16,C13", cfg.path->dir != NULL && cfg.path->dir != in_name && strcmp(cfg.path->dir, in_name) == 0, "the node holds a private, tilde-expanded copy of the directory");
			free(cfg.path->dir); free(cfg.path);
		} else
			CHECK("C17,C18", cfg.path == before, "a failed addition leaves the list as it was");
		CHECK("C17", cfg_add_searchpath(NULL, in_name) == CFG_FAIL && cfg_add_searchpath(&cfg, NULL) == CFG_FAIL, "NULL arguments fail");
	}
	CANARY("add_searchpath");
}
