/* Units on cfg_setopt(), numeric / boolean arms (C04, with the C06 "rejected => reported" and C10 "rejected =>
 * unchanged" clauses of the same call).  Style S2: closed harness = precondition builder + call + ensures.
 *
 * contract::cfg_setopt (INT/FLOAT/BOOL arm, no parse callback), option already holding one explicitly set value:
 *   requires  cfg, opt valid; opt->type in {INT,FLOAT,BOOL}; !simple; nvalues == 1; RESET clear; value a C string
 *   ensures   ret != NULL  =>  ret == values[0], stored value == reference value of the token, MODIFIED set
 *             ret == NULL  =>  >= 1 diagnostic delivered, values[0] / nvalues / flags unchanged
 *             spec says accept => ret != NULL;  spec says reject => ret == NULL     (independent of entry errno)
 */
#include "ref_strings.h"
#include "common.h"
#include "num_spec.h"

#ifndef TOKN
#define TOKN 4
#endif

char in_tok[TOKN + 1];
int in_errno;
int in_flags;

static void setup_scalar(cfg_t *cfg, cfg_opt_t *opt, cfg_value_t *v, cfg_value_t **vp, cfg_type_t type)
{
	memset(cfg, 0, sizeof *cfg);
	memset(opt, 0, sizeof *opt);
	cfg->errfunc = cfgv_errfunc;
	cfg->name = "root";
	cfg->flags = nondet_int();
	cfg->line = nondet_int();
	opt->name = "o";
	opt->type = type;
	in_flags = nondet_int();
	/* scalar option that already holds one explicit value */
	__CPROVER_assume(!(in_flags & (CFGF_RESET | CFGF_LIST | CFGF_MULTI)));
	opt->flags = (cfg_flag_t)in_flags;
	opt->nvalues = 1;
	*vp = v;
	opt->values = vp;
	g_diag = 0;
	for (int i = 0; i < TOKN; i++)
		in_tok[i] = nondet_char();
	in_tok[TOKN] = 0;
	in_errno = nondet_int();
	errno = in_errno;
}

void h_setopt_int_concrete(void)
{
	cfg_t cfg; cfg_opt_t opt; cfg_value_t v, *vp;
	long old = nondet_long(), want = 0;
	int verdict;
	cfg_value_t *r;

	setup_scalar(&cfg, &opt, &v, &vp, CFGT_INT);
	v.number = old;
	verdict = spec_int(in_tok, &want);

	r = cfg_setopt(&cfg, &opt, in_tok);

	CHECK("C04,C05", verdict != 1 || r != NULL, "a numeral in the radix its prefix selects, within range, is accepted (whatever errno was)");
	CHECK("C04", verdict != 1 || r == NULL || r->number == want, "an accepted numeral yields exactly its value");
	CHECK("C04", verdict != 0 || r == NULL, "a token that is not a complete numeral with >= 1 digit is rejected");
	CHECK("C04,C06", r != NULL || g_diag >= 1, "a rejected integer token is reported through the error function");
	CHECK("C04,C10", r != NULL || (v.number == old && opt.nvalues == 1 && opt.values == &vp && opt.flags == (cfg_flag_t)in_flags),
	      "a rejected integer token leaves value, count and flags as they were");
	CHECK("C04", r == NULL || (r == &v && opt.nvalues == 1 && (opt.flags & CFGF_MODIFIED)), "accepted: the value is stored in the existing slot, MODIFIED set");
	CANARY("setopt_int_concrete");
}

void h_setopt_bool_concrete(void)
{
	cfg_t cfg; cfg_opt_t opt; cfg_value_t v, *vp;
	cfg_bool_t old = nondet_bool() ? cfg_true : cfg_false;
	int want;
	cfg_value_t *r;

	setup_scalar(&cfg, &opt, &v, &vp, CFGT_BOOL);
	v.boolean = old;
	want = spec_bool(in_tok);

	r = cfg_setopt(&cfg, &opt, in_tok);

	CHECK("C04,C05", want == -1 || (r != NULL && r->boolean == (cfg_bool_t)want), "true/yes/on and false/no/off in any letter case are accepted with that truth value");
	CHECK("C04", want != -1 || r == NULL, "any other token is rejected for a boolean option");
	CHECK("C04,C06", r != NULL || g_diag >= 1, "a rejected boolean token is reported through the error function");
	CHECK("C04,C10", r != NULL || (v.boolean == old && opt.nvalues == 1 && opt.flags == (cfg_flag_t)in_flags), "a rejected boolean token leaves the option as it was");
	CANARY("setopt_bool_concrete");
}

/* set-from-text on an option that does not hold an explicitly set scalar: a pristine default, an emptied option, a list.
 * The statement C10 wants an unconvertible text to leave such an option bit-for-bit as it was; cfg_setopt() drops the
 * defaults and appends its slot BEFORE it converts - recorded finding. */
void h_setopt_int_unconvertible_states(void)
{
	cfg_t cfg; cfg_opt_t opt; cfg_value_t v, *vp = &v, *vals[1]; cfg_value_t *r; unsigned k = nondet_uint();
	int flags; unsigned n;
	memset(&cfg, 0, sizeof cfg); memset(&opt, 0, sizeof opt);
	cfg.errfunc = cfgv_errfunc; cfg.name = "root";
	if (k == 0) { flags = CFGF_RESET; n = 1; } else if (k == 1) { flags = 0; n = 0; } else if (k == 2) { flags = CFGF_LIST; n = 1; } else { flags = CFGF_LIST | CFGF_RESET; n = 1; }
	opt.name = "o"; opt.type = CFGT_INT; opt.flags = flags; opt.nvalues = n;
	if (n) { vals[0] = cfgv_alloc(sizeof(cfg_value_t)); vals[0]->number = 7; opt.values = cfgv_alloc(sizeof(cfg_value_t *)); opt.values[0] = vals[0]; }
	(void)vp; (void)v;
	g_diag = 0;
	r = cfg_setopt(&cfg, &opt, "x");
	CHECK("C04,C06", r == NULL && g_diag >= 1, "an unconvertible text is refused with a diagnostic whatever the option held");
	KFCHECK("C10-setopt-mutates-before-conversion", "C10", opt.nvalues == n && opt.flags == flags && (n == 0 || (opt.values != NULL && opt.values[0] == vals[0] && vals[0]->number == 7)),
		"set-from-text with unconvertible text leaves a default-holding, emptied or list option exactly as it was");
	CANARY("setopt_int_unconvertible_states");
}

void h_parse_boolean(void)
{
	int want, got;
	for (int i = 0; i < TOKN; i++)
		in_tok[i] = nondet_char();
	in_tok[TOKN] = 0;
	want = spec_bool(in_tok);
	got = cfg_parse_boolean(in_tok);
	CHECK("C04", got == want, "cfg_parse_boolean: 1 / 0 for the six words in any case, -1 otherwise");
	CHECK("C04", cfg_parse_boolean(NULL) == -1, "cfg_parse_boolean(NULL) fails");
	CANARY("parse_boolean");
}

/* ---------------------------------------------------------------------------------------------------------
 * abstract units: strtol / strtod are assumed-contract carriers (C11 7.22.1): they return an arbitrary
 * value, an arbitrary end offset (0 = no conversion performed), may report a range error, and write errno
 * ONLY on a range error.  The ensures clauses are stated over these ghost facts, so they cover every token
 * length and the LONG_MAX / DBL_MAX boundary that the concrete unit cannot reach.
 */
#ifdef CFGV_ABSTRACT_NUM
static int g_conv_calls;
static const char *g_conv_nptr;
static int g_conv_base;
size_t in_conv_end;      /* bytes consumed, counted from nptr */
_Bool in_conv_range;     /* range error reported */
long in_conv_long;
double in_conv_double;

long strtol(const char *nptr, char **endptr, int base)
{
	size_t len = strlen(nptr);
	g_conv_calls++;
	g_conv_nptr = nptr;
	g_conv_base = base;
	in_conv_end = nondet_size();
	__CPROVER_assume(in_conv_end <= len);
	in_conv_range = nondet_bool();
	in_conv_long = nondet_long();
	if (in_conv_end == 0) { in_conv_range = 0; in_conv_long = 0; }
	if (in_conv_range) { errno = ERANGE; in_conv_long = nondet_bool() ? LONG_MAX : LONG_MIN; }
	if (endptr) *endptr = (char *)nptr + in_conv_end;
	return in_conv_long;
}
double strtod(const char *nptr, char **endptr)
{
	size_t len = strlen(nptr);
	g_conv_calls++;
	g_conv_nptr = nptr;
	in_conv_end = nondet_size();
	__CPROVER_assume(in_conv_end <= len);
	in_conv_range = nondet_bool();
	in_conv_double = nondet_double();
	if (in_conv_end == 0) { in_conv_range = 0; in_conv_double = 0.0; }
	if (in_conv_range) errno = ERANGE;
	if (endptr) *endptr = (char *)nptr + in_conv_end;
	return in_conv_double;
}

void h_setopt_float_abstract(void)
{
	cfg_t cfg; cfg_opt_t opt; cfg_value_t v, *vp;
	double old = nondet_double();
	cfg_value_t *r;
	size_t len;
	_Bool numeral;

	setup_scalar(&cfg, &opt, &v, &vp, CFGT_FLOAT);
	v.fpnumber = old;
	g_conv_calls = 0;
	len = strlen(in_tok);

	r = cfg_setopt(&cfg, &opt, in_tok);

	CHECK("C04", g_conv_calls == 1 && g_conv_nptr == in_tok, "the whole token is handed to the float conversion, once");
	numeral = in_conv_end == len && in_conv_end > 0 && !in_conv_range;
	CHECK("C04,C05", !numeral || r != NULL, "a complete finite-range float numeral is accepted (whatever errno was)");
	CHECK("C04", r == NULL || in_conv_end == len, "accepted float: the conversion consumed the whole token");
	CHECK("C04", r == NULL || in_conv_end > 0, "accepted float: the conversion consumed at least one byte (an empty token is not a numeral)");
	CHECK("C04", r == NULL || !in_conv_range, "accepted float: no range error");
	CHECK("C04", r == NULL || (r == &v && __CPROVER_isnand(in_conv_double) ? __CPROVER_isnand(r->fpnumber) : r->fpnumber == in_conv_double), "accepted float: the stored value is the converted one");
	CHECK("C04,C06", r != NULL || g_diag >= 1, "a rejected float token is reported through the error function");
	CHECK("C04,C10", r != NULL || ((__CPROVER_isnand(old) ? __CPROVER_isnand(v.fpnumber) : v.fpnumber == old) && opt.nvalues == 1 && opt.flags == (cfg_flag_t)in_flags),
	      "a rejected float token leaves the option as it was");
	CANARY("setopt_float_abstract");
}

void h_setopt_int_abstract(void)
{
	cfg_t cfg; cfg_opt_t opt; cfg_value_t v, *vp;
	long old = nondet_long();
	cfg_value_t *r;
	size_t len, skip;
	_Bool numeral;

	setup_scalar(&cfg, &opt, &v, &vp, CFGT_INT);
	v.number = old;
	g_conv_calls = 0;
	len = strlen(in_tok);

	r = cfg_setopt(&cfg, &opt, in_tok);

	CHECK("C04", g_conv_calls == 1, "exactly one integer conversion per token");
	skip = (size_t)(g_conv_nptr - in_tok);
	CHECK("C04", (in_tok[0] == '0' && in_tok[1] == 'x') ? (g_conv_base == 16 && skip == 2) : 1, "0x selects radix 16 for the digits after the prefix");
	CHECK("C04", (in_tok[0] == '0' && in_tok[1] == 'b') ? (g_conv_base == 2 && skip == 2) : 1, "0b selects radix 2 for the digits after the prefix");
	CHECK("C04", (in_tok[0] == '0' && in_tok[1] != 'x' && in_tok[1] != 'b') ? (g_conv_base == 8 && skip <= 1) : 1, "a leading 0 selects radix 8");
	CHECK("C04", in_tok[0] != '0' ? (skip == 0 && (g_conv_base == 0 || g_conv_base == 10)) : 1, "no prefix: the whole token is converted as signed decimal");
	CHECK("C04", r == NULL || skip + in_conv_end == len, "accepted integer: the conversion consumed the whole token");
	CHECK("C04", r == NULL || !in_conv_range, "accepted integer: the value is within the range of long (no silent clamp to LONG_MAX/LONG_MIN)");
	CHECK("C04,C05", r == NULL || r->number == in_conv_long, "accepted integer: the stored value is the converted one");
	/* digits >= 1 and "nothing but digits after a prefix" are lexical facts: decided by the concrete unit */
	numeral = skip + in_conv_end == len && in_conv_end > 0 && !in_conv_range && g_conv_base != 16 && g_conv_base != 2 && g_conv_base != 8;
	CHECK("C04,C05", !numeral || r != NULL, "a complete in-range decimal numeral is accepted (whatever errno was)");
	CHECK("C04,C06", r != NULL || g_diag >= 1, "a rejected integer token is reported through the error function");
	CHECK("C04,C10", r != NULL || (v.number == old && opt.nvalues == 1 && opt.flags == (cfg_flag_t)in_flags), "a rejected integer token leaves the option as it was");
	CANARY("setopt_int_abstract");
}
#endif
