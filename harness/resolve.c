/* Units on path resolution (C11, C14 registration): parse_title, cfg_getopt / cfg_getopt_secidx / cfg_getsec on a
 * two-level tree, cfg_getopt_array.  Oracle: step-by-step navigation with the single-level accessors, written from the
 * statement (spec_resolve below).  Paths: every byte string up to PATHN bytes. */
#define CFGV_DUP_FAIL_GHOST
#include "ref_strings.h"
#include "common.h"

#ifndef PATHN
#define PATHN 4
#endif
char in_path[PATHN + 1];

/* ------------------------------------------------------------------------------------------------ parse_title
 * contract::parse_title(text, &len)
 *   unquoted: the title is the bytes up to the next '|' (at least one), len = their number
 *   quoted '...': only \' and \\ are escapes; any other backslash, or a missing closing quote, is malformed -> NULL;
 *                 len = bytes consumed including both quotes
 *   the result is a fresh string (or NULL); the input is not modified */
static int spec_title(const char *t, char *out, unsigned *consumed)
{
	unsigned i = 0, o = 0;
	if (t[0] != '\'') {
		while (t[i] && t[i] != '|') { out[o++] = t[i]; i++; }
		out[o] = 0; *consumed = i;
		return i > 0;
	}
	i = 1;
	for (;;) {
		char c = t[i];
		if (c == 0) return 0;                                   /* unterminated */
		if (c == '\'') { out[o] = 0; *consumed = i + 1; return 1; }
		if (c == '\\') {
			if (t[i + 1] != '\'' && t[i + 1] != '\\') return 0;  /* only \' and \\ */
			out[o++] = t[i + 1]; i += 2; continue;
		}
		out[o++] = c; i++;
	}
}
void h_parse_title(void)
{
	char want[PATHN + 1], copy[PATHN + 1]; unsigned wc = 0; size_t len = 12345; int ok; char *r;
	for (unsigned i = 0; i < PATHN; i++) in_path[i] = nondet_char();
	in_path[PATHN] = 0;
	for (unsigned i = 0; i <= PATHN; i++) copy[i] = in_path[i];
	ok = spec_title(in_path, want, &wc);
	cfgv_dup_fail = nondet_bool();       /* ghost: the one copy the function makes fails (the unit runs without other allocation failures) */
	r = parse_title(in_path, &len);
	CHECK("C11,C18", (r != NULL) == (ok != 0 && !cfgv_dup_fail), "a title qualifier is accepted exactly when it is well-formed (and its copy could be allocated)");
	CHECK("C11", ok || r == NULL, "malformed quoting (other escapes, missing closing quote) and empty titles are refused");
	if (r) {
		CHECK("C11", strcmp(r, want) == 0, "the title is the qualifier text: verbatim up to '|', or unquoted with \\' and \\\\ unescaped");
		CHECK("C11", len == wc, "the number of bytes consumed covers the whole qualifier (including both quotes)");
		free(r);
	}
	for (unsigned i = 0; i <= PATHN; i++) CHECK("C11", copy[i] == in_path[i], "resolving never modifies the path string");
	CANARY("parse_title");
}

/* ------------------------------------------------------------------------------------------------ the tree
 *   root { a : integer ; s : section (flags literal, K instances with 1-byte titles) { b : integer } }          */
#ifndef NSEC
#define NSEC 2
#endif
static int k_secflags, k_ctxflags;
/* every instance is a separate object (arrays of structs addressed through a symbolic index give spurious pointer
 * failures in this CBMC) */
static cfg_t t_root, t_sec0, t_sec1;
static cfg_t *const t_secp[2] = { &t_sec0, &t_sec1 };
#define t_sec(i) (*t_secp[i])
static cfg_opt_t t_rootopts[3], t_secopts0[3], t_secopts1[3];
static cfg_value_t t_val0, t_val1, *t_vals[2];
#ifdef TREE_DEEP      /* a third level: s { b ; t { c } }  (t a single section with its one instance) */
static cfg_t t_sub0, t_sub1; static cfg_opt_t t_subopts0[2], t_subopts1[2]; static cfg_value_t t_subval0, t_subval1, *t_subvals0[1], *t_subvals1[1];
#endif
char in_ttl[2][2];      /* the instances' titles (inputs: they appear in counterexamples) */
#define t_title in_ttl
static void mk_one(cfg_t *sec, cfg_opt_t *opts, cfg_value_t *val, unsigned i)
{
	opts[0].name = "b"; opts[0].type = CFGT_INT; opts[1].name = NULL; opts[1].type = CFGT_NONE;
#ifdef TREE_DEEP
	{
		cfg_t *sub = i ? &t_sub1 : &t_sub0; cfg_opt_t *so = i ? t_subopts1 : t_subopts0; cfg_value_t *sv = i ? &t_subval1 : &t_subval0; cfg_value_t **svs = i ? t_subvals1 : t_subvals0;
		so[0].name = "c"; so[0].type = CFGT_INT; so[1].name = NULL;
		sub->name = "t"; sub->flags = k_ctxflags; sub->errfunc = cfgv_errfunc; sub->opts = so;
		sv->section = sub; svs[0] = sv;
		opts[1].name = "t"; opts[1].type = CFGT_SEC; opts[1].flags = 0; opts[1].nvalues = 1; opts[1].values = svs;
		opts[2].name = NULL; opts[2].type = CFGT_NONE;
	}
#endif
	sec->name = "s"; sec->flags = k_ctxflags; sec->errfunc = cfgv_errfunc; sec->opts = opts;
	if (k_secflags & CFGF_TITLE) { t_title[i][0] = nondet_char(); __CPROVER_assume(t_title[i][0] != 0); t_title[i][1] = 0; sec->title = t_title[i]; }
	val->section = sec;
}
static void mk_tree(void)
{
	t_root.name = "root"; t_root.flags = k_ctxflags; t_root.errfunc = cfgv_errfunc; t_root.opts = t_rootopts;
	t_rootopts[0].name = "a"; t_rootopts[0].type = CFGT_INT;
	t_rootopts[1].name = "s"; t_rootopts[1].type = CFGT_SEC; t_rootopts[1].flags = k_secflags;
	t_rootopts[1].nvalues = NSEC; t_rootopts[1].values = NSEC ? t_vals : NULL;
	if (NSEC >= 1) { mk_one(&t_sec0, t_secopts0, &t_val0, 0); t_vals[0] = &t_val0; }
	if (NSEC >= 2) { mk_one(&t_sec1, t_secopts1, &t_val1, 1); t_vals[1] = &t_val1; }
	g_diag = 0;
}
static _Bool name_eq(const char *p, unsigned n, char name, _Bool nocase)
{
	return n == 1 && (nocase ? cfgv_lc((unsigned char)p[0]) == cfgv_lc((unsigned char)name) : p[0] == name);
}
enum { RS_NONE = 0, RS_OK = 1, RS_SILENT = 2 };
/* reference: walk one level at a time.  want_section: the whole path names a section instance (cfg_getsec/cfg_rmsec);
 * otherwise its last component names an option.  Results: *ropt, *ridx (instance for want_section). */
static cfg_t *g_rsec_dummy;
static int spec_resolve2(const char *path, _Bool want_section, cfg_opt_t **ropt, long *ridx, cfg_t **rsec);
static int spec_resolve(const char *path, _Bool want_section, cfg_opt_t **ropt, long *ridx) { return spec_resolve2(path, want_section, ropt, ridx, &g_rsec_dummy); }
static int spec_resolve2(const char *path, _Bool want_section, cfg_opt_t **ropt, long *ridx, cfg_t **rsec)
{
	const char *p = path; cfg_t *cur = &t_root; int depth = 0;
	_Bool nocase = (k_ctxflags & CFGF_NOCASE) != 0;
	*ropt = NULL; *ridx = -1;
	if (!*p) return RS_NONE;
	for (;;) {
		unsigned n = 0; cfg_opt_t *opt = NULL; long idx = -1;
		while (p[n] && p[n] != '|' && p[n] != '=') n++;
		if (!want_section && p[n] == 0) {
			/* last component: an option of the current level */
			if (depth == 0) { if (name_eq(p, n, 'a', nocase)) *ropt = &t_rootopts[0]; else if (name_eq(p, n, 's', nocase)) *ropt = &t_rootopts[1]; }
			else if (depth == 1 && name_eq(p, n, 'b', nocase)) *ropt = &cur->opts[0];
#ifdef TREE_DEEP
			else if (depth == 1 && name_eq(p, n, 't', nocase)) *ropt = &cur->opts[1];
			else if (depth == 2 && name_eq(p, n, 'c', nocase)) *ropt = &cur->opts[0];
#endif
			return *ropt ? RS_OK : RS_NONE;
		}
		if (n == 0) return RS_NONE;                           /* stray separator / qualifier sign */
		_Bool inner = 0;
		if (depth == 0 && name_eq(p, n, 's', nocase)) opt = &t_rootopts[1];
#ifdef TREE_DEEP
		if (depth == 1 && name_eq(p, n, 't', nocase)) { opt = &cur->opts[1]; inner = 1; }
#endif
		if (!opt) return RS_NONE;                             /* missing name, or not a section */
		if (p[n] != '=') idx = 0;                             /* unqualified: the first (or only) instance */
		else {
			char title[PATHN + 1]; unsigned used = 0;
			if (inner || !(k_secflags & CFGF_MULTI)) return RS_NONE;     /* qualifier on a single section */
			p += n + 1; n = 0;
			if (!spec_title(p, title, &used)) return RS_NONE;  /* empty or malformed qualifier */
			if (p[0] == '\'' && p[used] != 0 && p[used] != '|') return RS_SILENT;   /* text glued to a closing quote: not judged */
			if (k_secflags & CFGF_TITLE) {
				_Bool onc = (k_secflags & CFGF_NOCASE) != 0;
				for (unsigned i = 0; i < NSEC; i++)
					if (idx < 0 && title[1] == 0 && title[0] != 0 && (onc ? cfgv_lc((unsigned char)title[0]) == cfgv_lc((unsigned char)t_title[i][0]) : title[0] == t_title[i][0])) idx = (long)i;
			} else {
				/* index: a complete integer numeral (strtol base 0) */
				long v = 0; unsigned k = 0; _Bool neg = 0;
				if (title[0] == ' ' || (title[0] >= '\t' && title[0] <= '\r') || title[0] == '+' || title[0] == '-' ) return RS_SILENT;  /* sign / blank: not judged */
				if (title[0] == '0' && title[1] != 0) return RS_SILENT;                   /* octal / hex spelling: not judged */
				while (title[k] >= '0' && title[k] <= '9') { v = v * 10 + (title[k] - '0'); k++; }
				idx = (k > 0 && title[k] == 0) ? v : -1;
				(void)neg;
			}
			n = used;
		}
		if (idx < 0 || idx >= (inner ? 1 : NSEC)) { if (want_section && p[n] == 0 && opt) { *ropt = opt; *ridx = idx < 0 ? -1 : idx; } return RS_NONE; }
		*rsec = inner ? cur->opts[1].values[0]->section : t_secp[idx];
		cur = *rsec; depth++;
		p += n;
		if (want_section && *p == 0) { *ropt = opt; *ridx = idx; return RS_OK; }
		if (*p != '|') return RS_SILENT;
		p++;
		if (*p == '|') return RS_SILENT;                          /* duplicated separators in the middle: not judged */
		if (*p == 0) return RS_NONE;                              /* stray separator at the end */
#ifdef TREE_DEEP
		if (depth > 2) return RS_NONE;
#else
		if (depth > 1) return RS_NONE;                            /* the tree has two levels */
#endif
	}
}

#ifdef TREE_COMBO      /* one CBMC process per flag combination */
#define FOR_TREE_FLAGS(stmt) do { \
	if (TREE_COMBO == 0) { k_secflags = 0; k_ctxflags = 0; stmt; } else if (TREE_COMBO == 1) { k_secflags = CFGF_MULTI; k_ctxflags = 0; stmt; } \
	else if (TREE_COMBO == 2) { k_secflags = CFGF_MULTI | CFGF_TITLE; k_ctxflags = CFGF_IGNORE_UNKNOWN; stmt; } \
	else if (TREE_COMBO == 3) { k_secflags = CFGF_MULTI | CFGF_TITLE | CFGF_NOCASE; k_ctxflags = CFGF_NOCASE; stmt; } \
	else { k_secflags = CFGF_TITLE; k_ctxflags = CFGF_NOCASE; stmt; } } while (0)
#else
#define FOR_TREE_FLAGS(stmt) do { unsigned g_ = nondet_uint(); \
	if (g_ == 0) { k_secflags = 0; k_ctxflags = 0; stmt; } else if (g_ == 1) { k_secflags = CFGF_MULTI; k_ctxflags = 0; stmt; } \
	else if (g_ == 2) { k_secflags = CFGF_MULTI | CFGF_TITLE; k_ctxflags = CFGF_IGNORE_UNKNOWN; stmt; } \
	else if (g_ == 3) { k_secflags = CFGF_MULTI | CFGF_TITLE | CFGF_NOCASE; k_ctxflags = CFGF_NOCASE; stmt; } \
	else { k_secflags = CFGF_TITLE; k_ctxflags = CFGF_NOCASE; stmt; } } while (0)
#endif

static void path_input(void)
{
	for (unsigned i = 0; i < PATHN; i++) in_path[i] = nondet_char();
	in_path[PATHN] = 0;
}
/* contract::cfg_getopt(cfg, path): the option reached by step-by-step navigation, else NULL; an unresolved path is
 * reported unless the context ignores unknown options; nothing in the tree changes; terminates (unwinding assertions) */
static void b_getopt(void)
{
	cfg_opt_t *want, *got; long wi; int verdict;
	mk_tree(); path_input();
	verdict = spec_resolve(in_path, 0, &want, &wi);
	got = cfg_getopt(&t_root, in_path);
	if (verdict != RS_SILENT) {
		CHECK("C11,C09", got == want, "a path addresses exactly the option reached by walking the tree one level at a time");
		CHECK("C11,C06", got != NULL || (k_ctxflags & CFGF_IGNORE_UNKNOWN) || g_diag >= 1 || in_path[0] == 0, "an unresolved path is reported (unless unknown options are ignored)");
		CHECK("C11,C06", got == NULL || g_diag == 0, "a path that resolves delivers no diagnostic");
	}
	CHECK("C11", t_rootopts[1].nvalues == NSEC && t_rootopts[0].nvalues == 0 && t_rootopts[1].values == (NSEC ? t_vals : NULL), "resolving a path changes nothing in the tree");
}
void h_getopt_path(void)
{
	FOR_TREE_FLAGS(b_getopt());
	CHECK("C11", cfg_getopt(NULL, "a") == NULL && cfg_getopt(&t_root, NULL) == NULL && cfg_getopt(&t_root, "") == NULL, "NULL context, NULL or empty path: not found");
	CANARY("getopt_path");
}
/* contract::cfg_getsec(cfg, path) / cfg_getopt_secidx(cfg, path, &index): the section instance reached, else NULL */
static void b_getsec(void)
{
	cfg_opt_t *want; long wi; int verdict; cfg_t *got;
	mk_tree(); path_input();
	cfg_t *wsec = NULL;
	verdict = spec_resolve2(in_path, 1, &want, &wi, &wsec);
	got = cfg_getsec(&t_root, in_path);
	if (verdict != RS_SILENT) {
		/* a component after a separator that is empty (stray separator at the end) or starts with '=' (stray qualifier sign) */
		_Bool stray_tail = 0;
		for (int i = 1; i < PATHN; i++) if (in_path[i] == '|' && (in_path[i + 1] == 0 || in_path[i + 1] == '=')) stray_tail = 1;
		if (stray_tail && verdict == RS_NONE)
			KFCHECK("C11-section-path-stray-tail-resolves", "C11", got == NULL, "a section path with a stray separator or '=' after its last step does not resolve");
		else
			CHECK("C11,C09", got == (verdict == RS_OK ? wsec : NULL), "a section path addresses exactly the instance reached by walking the tree one level at a time (unqualified = first instance)");
	}
}
void h_getsec_path(void)
{
	FOR_TREE_FLAGS(b_getsec());
	CANARY("getsec_path");
}

/* ------------------------------------------------------------------------------------------------ cfg_getopt_array
 * (schema-level resolver used when callbacks are registered by path, C14): names joined by '|'; a section step goes
 * into the section's only instance if it is a single section that has one, else into the DECLARED sub-options - so that
 * a callback registered for a multi section reaches the template every later instance is copied from.
 * The function is recursive (a section name is looked up by a nested call with a '|'-free name); the unit runs the
 * mechanically extracted copy cfg_getopt_array_top whose nested call is the contract carrier below:
 *   contract (name without '|'): the first option of opts whose name equals name (case-insensitively iff NOCASE), or NULL
 * and the same unit enforces exactly this contract on cfg_getopt_array_top for '|'-free names (h_getopt_array_leaf). */
static int g_ga_rec_calls; static _Bool g_ga_rec_forbidden;
static cfg_opt_t *cfgv_rec_cfg_getopt_array(cfg_opt_t *opts, int cfg_flags, const char *name)
{
	g_ga_rec_calls++;
	CHECK("C11", !g_ga_rec_forbidden, "a '|'-free name is resolved without a nested lookup");
	for (unsigned k = 0; name[k]; k++) CHECK("C11", name[k] != '|', "the nested lookup is asked for a single name");
	if (!opts || !name) return NULL;
	for (unsigned i = 0; opts[i].name; i++)
		if ((cfg_flags & CFGF_NOCASE) ? strcasecmp(opts[i].name, name) == 0 : strcmp(opts[i].name, name) == 0) return &opts[i];
	return NULL;
}
#include "extracted_cfg_getopt_array.inc"
static cfg_opt_t ga_root[3], ga_decl[2], ga_inst[2]; static cfg_t ga_sec; static cfg_value_t ga_val, *ga_vals[1];
static void ga_tree(_Bool multi, _Bool has_instance)
{
	ga_root[0].name = "a"; ga_root[0].type = CFGT_INT;
	ga_root[1].name = "s"; ga_root[1].type = CFGT_SEC; ga_root[1].flags = multi ? CFGF_MULTI : 0; ga_root[1].subopts = ga_decl;
	ga_decl[0].name = "b"; ga_decl[0].type = CFGT_INT; ga_inst[0].name = "b"; ga_inst[0].type = CFGT_INT;
	ga_sec.opts = ga_inst; ga_val.section = &ga_sec; ga_vals[0] = &ga_val;
	if (has_instance) { ga_root[1].nvalues = 1; ga_root[1].values = ga_vals; }
}
static void b_getopt_array(_Bool multi, _Bool has_instance)
{
	cfg_opt_t *got, *want = NULL; _Bool nocase = nondet_bool();
	ga_tree(multi, has_instance);
	path_input();
	g_ga_rec_calls = 0; g_ga_rec_forbidden = 0;
	/* reference */
	{
		const char *p = in_path; unsigned n = 0;
		while (p[n] && p[n] != '|') n++;
		if (p[n] == 0) { if (name_eq(p, n, 'a', nocase)) want = &ga_root[0]; else if (name_eq(p, n, 's', nocase)) want = &ga_root[1]; }
		else if (name_eq(p, n, 's', nocase) && p[n + 1] != '|' ) {
			const char *q = p + n + 1; unsigned m = 0;
			while (q[m] && q[m] != '|') m++;
			if (q[m] == 0 && name_eq(q, m, 'b', nocase)) want = (!multi && has_instance) ? &ga_inst[0] : &ga_decl[0];
		}
	}
	got = cfg_getopt_array_top(ga_root, nocase ? CFGF_NOCASE : 0, in_path);
	{
		/* not judged: duplicated separators, a leading separator */
		_Bool silent = 0;
		for (unsigned i = 0; i + 1 < PATHN; i++) if (in_path[i] == '|' && in_path[i + 1] == '|') silent = 1;
		if (in_path[0] == '|') silent = 1;
		if (!silent) CHECK("C14,C11,C16", got == want, "a schema path resolves to the declared option: inside a multi section to the template its instances are copied from, inside a single section to its instance");
	}
}
void h_getopt_array(void)
{
#ifdef GA_CASE
	b_getopt_array((GA_CASE & 2) != 0, (GA_CASE & 1) != 0);
#else
	unsigned k = nondet_uint();
	if (k == 0) b_getopt_array(0, 0); else if (k == 1) b_getopt_array(0, 1); else if (k == 2) b_getopt_array(1, 0); else b_getopt_array(1, 1);
#endif
	CANARY("getopt_array");
}
/* the nested call's contract, enforced on the function itself: a '|'-free name */
void h_getopt_array_leaf(void)
{
	cfg_opt_t *got, *want = NULL; _Bool nocase = nondet_bool();
	ga_tree(0, 0);
	path_input();
	for (unsigned i = 0; i < PATHN; i++) __CPROVER_assume(in_path[i] != '|');
	g_ga_rec_forbidden = 1;
	if (name_eq(in_path, (unsigned)strlen(in_path), 'a', nocase)) want = &ga_root[0]; else if (name_eq(in_path, (unsigned)strlen(in_path), 's', nocase)) want = &ga_root[1];
	got = cfg_getopt_array_top(ga_root, nocase ? CFGF_NOCASE : 0, in_path);
	CHECK("C14,C11", got == want, "a single name resolves to the first declared option carrying it (case-insensitively iff the context says so)");
	CHECK("C11", cfg_getopt_array_top(NULL, 0, in_path) == NULL && cfg_getopt_array_top(ga_root, 0, NULL) == NULL, "NULL arguments: not found");
	CANARY("getopt_array_leaf");
}

/* contract::cfg_set_validate_func / cfg_set_validate_func2 (C14): the path is resolved by the schema-level resolver with
 * the context's own declarations and flags; the callback is installed on the option it yields and the previous one is
 * returned; an unresolved path installs nothing */
extern int g_ga_calls; extern cfg_opt_t *g_ga_opts; extern int g_ga_flags; extern const char *g_ga_name; extern cfg_opt_t *g_ga_result;
static int v1(cfg_t *c, cfg_opt_t *o) { (void)c; (void)o; return 0; }
static int v2(cfg_t *c, cfg_opt_t *o, void *v) { (void)c; (void)o; (void)v; return 0; }
void h_set_validate(void)
{
	cfg_t cfg; cfg_opt_t opts[2], target; _Bool found = nondet_bool(); static const char path[] = "s|b";
	memset(&cfg, 0, sizeof cfg); memset(opts, 0, sizeof opts); memset(&target, 0, sizeof target);
	cfg.opts = opts; cfg.flags = nondet_int();
	target.validcb = nondet_bool() ? v1 : NULL;
	g_ga_result = found ? &target : NULL; g_ga_calls = 0;
	{
		cfg_validate_callback_t old = target.validcb, r = cfg_set_validate_func(&cfg, path, v1);
		CHECK("C14", g_ga_calls == 1 && g_ga_opts == opts && g_ga_flags == cfg.flags && g_ga_name == path, "a registration path is resolved against the context's own declarations and case rule");
		if (found) CHECK("C14", r == old && target.validcb == v1, "registering by path installs the validation callback on the resolved option and returns the previous one");
		else CHECK("C14", r == NULL && target.validcb == old, "an unresolved registration path installs nothing");
	}
	{
		cfg_validate_callback2_t r2 = cfg_set_validate_func2(&cfg, path, v2);
		if (found) CHECK("C14", r2 == NULL && target.validcb2 == v2, "the pre-set validation callback is installed the same way");
		else CHECK("C14", r2 == NULL && target.validcb2 == NULL, "an unresolved registration path installs no pre-set callback");
	}
	CANARY("set_validate");
}
