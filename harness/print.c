/* Units on printing (C19 C05 C15): cfg_opt_nprint_var, cfg_opt_print_pff_indent, cfg_print_pff_indent, cfg_indent,
 * cfg_opt_set_print_func, cfg_set_print_filter_func.  fprintf is an assumed-contract carrier that interprets the format
 * strings and appends to a ghost byte buffer; numbers are appended as a marker byte plus a ghost value (their digits are
 * libc's business), and the conversion specification used is recorded so that a changed format is noticed. */
#include "ref_strings.h"
#include "common.h"
#include "print_spec.h"

#define OUTMAX 64
static unsigned char g_out[OUTMAX]; static unsigned g_outn; static _Bool g_out_overflow;
static long g_long_val[4]; static double g_dbl_val[4]; static int g_nlong, g_ndbl; static _Bool g_bad_conversion;
static FILE *g_fp_seen; static FILE g_fp_obj;
static void out_byte(unsigned char c) { if (g_outn < OUTMAX) g_out[g_outn++] = c; else g_out_overflow = 1; }
int fprintf(FILE *fp, const char *fmt, ...)
{
	va_list ap; unsigned i = 0;
	g_fp_seen = fp;
	va_start(ap, fmt);
	while (fmt[i]) {
		if (fmt[i] != '%') { out_byte((unsigned char)fmt[i]); i++; continue; }
		if (fmt[i + 1] == 's') { const char *s = va_arg(ap, const char *); if (s) for (unsigned k = 0; s[k]; k++) out_byte((unsigned char)s[k]); else { out_byte(M_NULLSTR); } i += 2; }
		else if (fmt[i + 1] == 'c') { char c = va_arg(ap, char); /* (CBMC keeps the argument's own type: no default promotion) */ out_byte((unsigned char)c); i += 2; }
		else if (fmt[i + 1] == 'l' && fmt[i + 2] == 'd') { long v = va_arg(ap, long); out_byte(M_LONG); if (g_nlong < 4) g_long_val[g_nlong] = v; g_nlong++; i += 3; }
		else if (fmt[i + 1] == 'f') { double v = va_arg(ap, double); out_byte(M_DOUBLE); if (g_ndbl < 4) g_dbl_val[g_ndbl] = v; g_ndbl++; i += 2; }
		else { g_bad_conversion = 1; out_byte(M_BADCONV); i++; while (fmt[i] && !((fmt[i] >= 'a' && fmt[i] <= 'z') || (fmt[i] >= 'A' && fmt[i] <= 'Z'))) i++; if (fmt[i]) i++; }
	}
	va_end(ap);
	return 0;
}
/* the other stdio output routines a printer may use instead of fprintf (same stream, same bytes) */
int fputc(int c, FILE *fp) { g_fp_seen = fp; out_byte((unsigned char)c); return (unsigned char)c; }
int fputs(const char *s, FILE *fp) { g_fp_seen = fp; for (unsigned k = 0; k < OUTMAX && s[k]; k++) out_byte((unsigned char)s[k]); return 0; }
size_t fwrite(const void *p, size_t sz, size_t n, FILE *fp) { const unsigned char *b = p; g_fp_seen = fp; for (size_t k = 0; k < OUTMAX && k < sz * n; k++) out_byte(b[k]); return n; }
static void out_reset(void) { g_outn = 0; g_out_overflow = 0; g_nlong = g_ndbl = 0; g_bad_conversion = 0; }
static _Bool out_equals(const unsigned char *want, unsigned n)
{
	if (g_out_overflow || g_outn != n) return 0;
	for (unsigned i = 0; i < OUTMAX; i++) if (i < n && g_out[i] != want[i]) return 0;
	return 1;
}

/* ------------------------------------------------------------------------------------------------ cfg_opt_nprint_var
 * contract: integer "%ld" of the value, float "%f", boolean true/false, string in double quotes with exactly the double
 * quote and the backslash escaped by a backslash (every other byte verbatim); other option types print nothing */
char in_str[4];
void h_nprint_str(void)
{
	cfg_opt_t o; cfg_value_t v, *vp = &v; unsigned char want[OUTMAX]; unsigned wn; int rc;
	memset(&o, 0, sizeof o); o.name = "o"; o.type = CFGT_STR; o.nvalues = 1; o.values = &vp;
	in_str[0] = nondet_char(); in_str[1] = nondet_char(); in_str[2] = nondet_char(); in_str[3] = 0;
	v.string = nondet_bool() ? in_str : NULL;
	out_reset();
	rc = cfg_opt_nprint_var(&o, 0, &g_fp_obj);
	wn = spec_print_str(v.string, want);
	CHECK("C05,C19", rc == CFG_SUCCESS && out_equals(want, wn) && g_fp_seen == &g_fp_obj, "a string value is written in double quotes with exactly the quote and the backslash escaped");
	CHECK("C05", !g_bad_conversion, "only the known conversions are used");
	CHECK("C19", cfg_opt_nprint_var(NULL, 0, &g_fp_obj) == CFG_FAIL && cfg_opt_nprint_var(&o, 0, NULL) == CFG_FAIL, "NULL option or stream fails");
	CANARY("nprint_str");
}
void h_nprint_num(void)
{
	cfg_opt_t o; cfg_value_t v, *vp = &v; int rc; unsigned k = nondet_uint();
	memset(&o, 0, sizeof o); o.name = "o"; o.nvalues = 1; o.values = &vp;
	out_reset();
	if (k == 0) {
		o.type = CFGT_INT; v.number = nondet_long();
		rc = cfg_opt_nprint_var(&o, 0, &g_fp_obj);
		CHECK("C05,C19", rc == CFG_SUCCESS && g_outn == 1 && g_out[0] == M_LONG && g_nlong == 1 && g_long_val[0] == v.number && !g_bad_conversion, "an integer value is written with %ld, exactly");
	} else if (k == 1) {
		o.type = CFGT_FLOAT; v.fpnumber = nondet_double(); __CPROVER_assume(!__CPROVER_isnand(v.fpnumber));
		rc = cfg_opt_nprint_var(&o, 0, &g_fp_obj);
		CHECK("C05,C19", rc == CFG_SUCCESS && g_outn == 1 && g_out[0] == M_DOUBLE && g_ndbl == 1 && g_dbl_val[0] == v.fpnumber && !g_bad_conversion, "a float value is written with %f (the printed precision the re-parse is compared at)");
	} else if (k == 2) {
		static const unsigned char t[] = "true", f[] = "false";
		o.type = CFGT_BOOL; v.boolean = nondet_bool() ? cfg_true : cfg_false;
		rc = cfg_opt_nprint_var(&o, 0, &g_fp_obj);
		CHECK("C05,C19", rc == CFG_SUCCESS && (v.boolean ? out_equals(t, 4) : out_equals(f, 5)), "a boolean value is written as true or false");
	} else {
		o.type = nondet_bool() ? CFGT_FUNC : CFGT_PTR; v.ptr = NULL;
		rc = cfg_opt_nprint_var(&o, 0, &g_fp_obj);
		CHECK("C19", rc == CFG_SUCCESS && g_outn == 0, "function and pointer options have no built-in value format");
	}
	CANARY("nprint_num");
}

/* ------------------------------------------------------------------------------------------------ cfg_opt_print_pff_indent
 * carriers: the value formatter cfg_opt_nprint_var -> marker V<i>; the print callback -> marker P<i>; the nested
 * cfg_print_pff_indent -> marker S plus a ghost record (section, filter, indent). */
static int g_pf_calls; static cfg_opt_t *g_pf_opt; static FILE *g_pf_fp;
static void cfgv_pf(cfg_opt_t *opt, unsigned int index, FILE *fp) { g_pf_calls++; g_pf_opt = opt; g_pf_fp = fp; out_byte(M_PF); out_byte((unsigned char)('0' + index)); }
extern int g_nest_calls; extern cfg_t *g_nest_cfg[3]; extern cfg_print_filter_func_t g_nest_pff[3]; extern int g_nest_indent[3];
extern int g_npv_calls; extern cfg_opt_t *g_npv_opt;
void cfgv_out_byte(unsigned char c) { out_byte(c); }
static int cfgv_filter_a(cfg_t *c, cfg_opt_t *o) { (void)c; (void)o; return 0; }
static int cfgv_filter_sec(cfg_t *c, cfg_opt_t *o) { (void)c; (void)o; return 1; }

static int k_type, k_flags2, k_n; static _Bool k_pf, k_comment, k_strnull;
static void b_print_opt(void)
{
	cfg_opt_t o; cfg_value_t v[3], *vp[3]; cfg_t sec[3]; char title[3][2]; unsigned char want[OUTMAX]; unsigned wn; int rc, indent;
	char name[2] = "o", comment[2] = "c";
	memset(&o, 0, sizeof o); memset(sec, 0, sizeof sec);
	o.name = name; o.type = k_type; o.flags = k_flags2; o.nvalues = (unsigned)k_n; o.values = k_n ? vp : NULL;
	for (int i = 0; i < 3; i++) {
		vp[i] = &v[i]; v[i].number = 0;
		if (k_type == CFGT_SEC) { title[i][0] = (char)('t' + i); title[i][1] = 0; sec[i].title = (k_flags2 & CFGF_TITLE) ? title[i] : NULL; v[i].section = &sec[i];
			sec[i].pff = nondet_bool() ? cfgv_filter_sec : NULL; }      /* an instance may have a filter of its own: it concerns that instance only */
		if (k_type == CFGT_STR) v[i].string = (k_strnull && i == 0) ? NULL : name;
	}
	if (k_pf) o.pf = cfgv_pf;
	if (k_comment) o.comment = comment;
	indent = nondet_int(); __CPROVER_assume(indent >= 0 && indent <= 2);
	out_reset(); g_pf_calls = 0; g_nest_calls = 0; g_npv_calls = 0;

	rc = cfg_opt_print_pff_indent(&o, &g_fp_obj, cfgv_filter_a, indent);

	{
		spo_in_t si;
		si.type_sec = k_type == CFGT_SEC; si.type_func_or_none = (k_type == CFGT_FUNC || k_type == CFGT_NONE); si.type_str = k_type == CFGT_STR;
		si.list = (k_flags2 & CFGF_LIST) != 0; si.titled = (k_flags2 & CFGF_TITLE) != 0; si.annotated = (k_flags2 & CFGF_COMMENTS) != 0 && k_comment;
		si.n = k_n; si.has_pf = k_pf; si.first_string_null = k_strnull; si.indent = indent; si.name = 'o'; si.comment = 'c';
		wn = spec_print_opt(&si, want);
	}
	CHECK("C19,C05", rc == CFG_SUCCESS && out_equals(want, wn), "an option is written in the reference layout: annotation, indentation, name, values (through the print callback if one is set, for exactly this option), unset scalars commented out, sections with header, body one level deeper and footer");
	CHECK("C19", !g_bad_conversion, "only the known conversions are used");
	if (k_type == CFGT_SEC)
		for (int i = 0; i < 3; i++)
			if (i < k_n) CHECK("C19,C16", g_nest_calls == k_n && g_nest_cfg[i] == &sec[i] && g_nest_pff[i] == cfgv_filter_a && g_nest_indent[i] == indent + 1,
					   "each section instance is printed once, in order, under the same effective filter, one indentation level deeper");
	if (k_pf && g_pf_calls > 0) CHECK("C19", g_pf_opt == &o && g_pf_fp == &g_fp_obj, "the print callback receives this option and this stream");
}
/* an annotation of several lines is written verbatim between the comment marks (C15 C05: it is read back as it was) */
char in_comment[4];
void h_print_comment(void)
{
	cfg_opt_t o; cfg_value_t v, *vp = &v; unsigned char want[OUTMAX]; unsigned wn = 0; int rc, indent;
	memset(&o, 0, sizeof o); o.name = "o"; o.type = CFGT_INT; o.flags = CFGF_COMMENTS; o.nvalues = 1; o.values = &vp; v.number = 0;
	in_comment[0] = nondet_char(); in_comment[1] = nondet_char(); in_comment[2] = nondet_char(); in_comment[3] = 0;
	o.comment = in_comment;
	indent = nondet_int(); __CPROVER_assume(indent >= 0 && indent <= 2);
	out_reset(); g_npv_calls = 0;
	rc = cfg_opt_print_pff_indent(&o, &g_fp_obj, NULL, indent);
	wn = spo_indent(want, wn, indent); wn = spo_lit(want, wn, "/* ");
	for (unsigned i = 0; i < 3 && in_comment[i]; i++) want[wn++] = (unsigned char)in_comment[i];
	wn = spo_lit(want, wn, " */\n");
	wn = spo_indent(want, wn, indent); want[wn++] = 'o'; want[wn++] = '='; want[wn++] = M_VALUE; want[wn++] = '0'; want[wn++] = '\n';
	CHECK("C15,C05,C19", rc == CFG_SUCCESS && out_equals(want, wn), "an annotation is written verbatim between the comment marks, whatever bytes (newlines included) it holds, before its option");
	CANARY("print_comment");
}
#define PO(t, f, n, pf, c, sn) do { k_type = (t); k_flags2 = (f); k_n = (n); k_pf = (pf); k_comment = (c); k_strnull = (sn); b_print_opt(); } while (0)
void h_print_opt(void)
{
	unsigned k = nondet_uint(); _Bool pf = nondet_bool() ? 1 : 0, c = nondet_bool() ? 1 : 0;
	/* constant shapes (type, flags, count); callback / annotation presence symbolic */
	if (k == 0) PO(CFGT_INT, 0, 0, pf, c, 0); else if (k == 1) PO(CFGT_INT, CFGF_COMMENTS, 1, pf, c, 0);
	else if (k == 2) PO(CFGT_STR, CFGF_COMMENTS, 1, pf, c, 1); else if (k == 3) PO(CFGT_STR, 0, 1, pf, c, 0);
	else if (k == 4) PO(CFGT_INT, CFGF_LIST, 0, pf, c, 0); else if (k == 5) PO(CFGT_INT, CFGF_LIST | CFGF_COMMENTS, 1, pf, c, 0);
	else if (k == 6) PO(CFGT_STR, CFGF_LIST, 3, pf, c, 0); else if (k == 7) PO(CFGT_SEC, CFGF_MULTI, 0, pf, c, 0);
	else if (k == 8) PO(CFGT_SEC, CFGF_MULTI | CFGF_TITLE | CFGF_COMMENTS, 2, pf, c, 0); else if (k == 9) PO(CFGT_SEC, 0, 1, pf, c, 0);
	else if (k == 10) PO(CFGT_FUNC, 0, 0, pf, c, 0); else if (k == 11) PO(CFGT_NONE, CFGF_COMMENTS, 0, pf, c, 0);
	else if (k == 12) PO(CFGT_BOOL, 0, 1, pf, c, 0); else PO(CFGT_PTR, CFGF_LIST, 2, pf, c, 0);
	CHECK("C19", cfg_opt_print_pff_indent(NULL, &g_fp_obj, NULL, 0) == CFG_FAIL, "NULL option fails");
	CANARY("print_opt");
}

/* ------------------------------------------------------------------------------------------------ cfg_print_pff_indent
 * contract: options in declaration order; the effective filter is the context's own one if it has one, else the one
 * inherited from the enclosing context; an option the effective filter rejects is skipped, every other one is handed to
 * the option printer exactly once with the effective filter and the same indentation. */
extern int g_optp_calls; extern cfg_opt_t *g_optp_opt[4]; extern cfg_print_filter_func_t g_optp_pff[4]; extern int g_optp_indent[4]; extern int g_optp_ret;
static _Bool g_fa_verdict[3], g_fb_verdict[3]; static cfg_opt_t *g_base; static int g_fa_calls, g_fb_calls; static cfg_t *g_f_cfg;
static int cfgv_filter_own(cfg_t *c, cfg_opt_t *o) { g_fa_calls++; g_f_cfg = c; return g_fa_verdict[o - g_base]; }
static int cfgv_filter_inherited(cfg_t *c, cfg_opt_t *o) { g_fb_calls++; g_f_cfg = c; return g_fb_verdict[o - g_base]; }
static void b_print_cfg(unsigned n)
{
	cfg_t cfg; cfg_opt_t opts[4]; int rc, indent; _Bool own = nondet_bool(), inherited = nondet_bool(); unsigned k = 0;
	cfg_print_filter_func_t eff;
	memset(&cfg, 0, sizeof cfg); memset(opts, 0, sizeof opts);
	for (unsigned i = 0; i < n; i++) { opts[i].name = "x"; opts[i].type = CFGT_INT; g_fa_verdict[i] = nondet_bool(); g_fb_verdict[i] = nondet_bool(); }
	cfg.opts = opts; g_base = opts;
	cfg.pff = own ? cfgv_filter_own : NULL;
	eff = own ? cfgv_filter_own : (inherited ? cfgv_filter_inherited : NULL);
	indent = nondet_int(); __CPROVER_assume(indent >= 0 && indent < 100);
	g_optp_calls = 0; g_optp_ret = 0; g_fa_calls = g_fb_calls = 0;
	rc = cfg_print_pff_indent(&cfg, &g_fp_obj, inherited ? cfgv_filter_inherited : NULL, indent);
	for (unsigned i = 0; i < 3; i++)
		if (i < n) {
			_Bool rejected = own ? g_fa_verdict[i] : (inherited ? g_fb_verdict[i] : 0);
			if (!rejected) {
				CHECK("C19,C16", k < (unsigned)g_optp_calls && g_optp_opt[k] == &opts[i], "every option the effective filter accepts is printed exactly once, in declaration order");
				if (k < 4) CHECK("C19,C16", g_optp_pff[k] == eff && g_optp_indent[k] == indent, "the option printer gets the effective filter (own filter, else the inherited one) and the same depth");
				k++;
			}
		}
	CHECK("C19", (unsigned)g_optp_calls == k, "nothing else is printed: an option the effective filter rejects is skipped");
	CHECK("C19", own ? g_fb_calls == 0 : (inherited ? g_fa_calls == 0 : (g_fa_calls == 0 && g_fb_calls == 0)), "a context's own filter takes precedence over the inherited one; without any filter nothing is asked");
	CHECK("C19", rc == CFG_SUCCESS, "printing succeeds");
}
void h_print_cfg(void)
{
	unsigned k = nondet_uint();
	if (k == 0) b_print_cfg(0); else if (k == 1) b_print_cfg(1); else if (k == 2) b_print_cfg(2); else b_print_cfg(3);
	CANARY("print_cfg");
}
/* the setters of the two hooks */
void h_print_hooks(void)
{
	cfg_t cfg; cfg_opt_t o; cfg_print_func_t oldpf; cfg_print_filter_func_t oldff;
	memset(&cfg, 0, sizeof cfg); memset(&o, 0, sizeof o);
	o.pf = nondet_bool() ? cfgv_pf : NULL; cfg.pff = nondet_bool() ? cfgv_filter_own : NULL;
	oldpf = o.pf; oldff = cfg.pff;
	CHECK("C19", cfg_opt_set_print_func(&o, cfgv_pf) == oldpf && o.pf == cfgv_pf, "setting a print callback installs it for this option and returns the previous one");
	CHECK("C19", cfg_set_print_filter_func(&cfg, cfgv_filter_inherited) == oldff && cfg.pff == cfgv_filter_inherited, "setting a print filter installs it for this context and returns the previous one");
	CHECK("C19", cfg_set_print_filter_func(&cfg, NULL) == cfgv_filter_inherited && cfg.pff == NULL && cfg_opt_set_print_func(&o, NULL) == cfgv_pf && o.pf == NULL, "setting NULL removes the filter / the callback (and returns the one that was installed)");
	CHECK("C19", cfg_opt_set_print_func(NULL, cfgv_pf) == NULL && cfg_set_print_filter_func(NULL, cfgv_filter_own) == NULL, "NULL option / context: nothing installed");
	CANARY("print_hooks");
}

/* contract::cfg_indent(fp, depth): exactly 2*depth blanks, nothing else, for every depth */
void h_indent(void)
{
	int depth = nondet_int(); _Bool ok = 1;
	__CPROVER_assume(depth >= 0 && depth <= 24);
	out_reset();
	cfg_indent(&g_fp_obj, depth);
	for (unsigned i = 0; i < OUTMAX; i++) if (i < g_outn && g_out[i] != ' ') ok = 0;
	CHECK("C19,C05", !g_out_overflow && g_outn == (unsigned)(2 * depth) && ok, "indentation is exactly two blanks per depth level, at every depth");
	CANARY("indent");
}
