/* Units on section options: cfg_setopt() section arm, title lookup, removal, cfg_addtsec (C01 C09 C10 C07 C16 C18).
 * Sections held by the option are fake contexts (title only); cfg_free / cfg_dupopt_array / cfg_init_defaults are
 * contract carriers with ghost logs. */
#include "store.c"

static char spec_lc(char c) { return (c >= 'A' && c <= 'Z') ? (char)(c - 'A' + 'a') : c; }
int g_initdef_flags_seen;
static int k_cfgflags;    /* literal flag word of the context */
static cfg_opt_t g_subopts[1];   /* the declared sub-options (terminator only): identity matters, not content */
char in_title[2]; _Bool in_notitle;
char in_sect[3][2];

static void mk_sec_opt(cfg_opt_t *o, unsigned n)
{
	memset(o, 0, sizeof *o);
	o->name = "o"; o->type = CFGT_SEC; o->flags = k_flags; in_flags = k_flags; in_n = n;
	o->subopts = g_subopts;
	o->nvalues = n;
	o->values = n ? cfgv_alloc(n * sizeof(cfg_value_t *)) : (k_leftover ? cfgv_alloc(sizeof(cfg_value_t *)) : NULL);
	for (unsigned i = 0; i < n; i++) {
		cfg_t *sec = cfgv_alloc(sizeof(cfg_t));
		memset(sec, 0, sizeof *sec);
		if (k_flags & CFGF_TITLE) {
			sec->title = cfgv_alloc(2);
			in_sect[i][0] = nondet_char(); in_sect[i][1] = 0;
			__CPROVER_assume(in_sect[i][0] != 0);
			sec->title[0] = in_sect[i][0]; sec->title[1] = 0;
		}
		sec->path = nondet_bool() ? (cfg_searchpath_t *)&g_simple_store : NULL;    /* shared with the root */
		o->values[i] = cfgv_alloc(sizeof(cfg_value_t));
		o->values[i]->section = sec;
	}
}
static int cfgv_ctx_filter(cfg_t *c, cfg_opt_t *o) { (void)c; (void)o; return 0; }
static void mk_ctx(cfg_t *cfg)
{
	memset(cfg, 0, sizeof *cfg);
	cfg->pff = nondet_bool() ? cfgv_ctx_filter : NULL;      /* the enclosing context may have a print filter of its own */
	cfg->comment = nondet_bool() ? "k" : NULL; cfg->title = nondet_bool() ? "T" : NULL;      /* ... an annotation, a title */
	cfg->name = "root"; cfg->errfunc = cfgv_errfunc; cfg->line = nondet_int(); cfg->flags = k_cfgflags;
	cfg->filename = nondet_bool() ? "f" : NULL;
	cfg->path = (cfg_searchpath_t *)&g_simple_store;
	g_diag = 0; g_free_calls = 0; g_dup_calls = 0; g_initdef_calls = 0;
}
static _Bool title_eq(const char *a, const char *b, _Bool nocase)
{
	return nocase ? (spec_lc(a[0]) == spec_lc(b[0]) && a[1] == b[1]) : (a[0] == b[0] && a[1] == b[1]);
}
#define FOR_SEC_FLAGS(stmt) do { unsigned g_ = nondet_uint(); \
	if (g_ == 0) { k_flags = 0; stmt; } else if (g_ == 1) { k_flags = CFGF_DEFINIT | CFGF_KEYSTRVAL; stmt; } \
	else if (g_ == 2) { k_flags = CFGF_MULTI | CFGF_NODEFAULT; stmt; } else if (g_ == 3) { k_flags = CFGF_MULTI | CFGF_TITLE; stmt; } \
	else if (g_ == 4) { k_flags = CFGF_MULTI | CFGF_TITLE | CFGF_NO_TITLE_DUPES | CFGF_DEFINIT; stmt; } \
	else if (g_ == 5) { k_flags = CFGF_TITLE; stmt; } else { k_flags = CFGF_MULTI | CFGF_TITLE | CFGF_NOCASE | CFGF_KEYSTRVAL; stmt; } } while (0)
#define FOR_CFG_FLAGS(stmt) do { if (nondet_bool()) { k_cfgflags = 0; stmt; } else { k_cfgflags = CFGF_NOCASE | CFGF_IGNORE_UNKNOWN | CFGF_COMMENTS; stmt; } } while (0)

/* ------------------------------------------------------------------------------------------------ cfg_setopt, section arm */
static void b_setopt_sec(unsigned n)
{
	cfg_t cfg; cfg_opt_t o; cfg_value_t *r; cfg_value_t *slot[3]; cfg_t *sec[3];
	int match = -1;
	_Bool nocase = (k_cfgflags & CFGF_NOCASE) != 0, titled = (k_flags & CFGF_TITLE) != 0, multi = (k_flags & CFGF_MULTI) != 0;
	const char *value;
	if (!multi && n > 1) return;                    /* a single section holds at most one instance */
	mk_ctx(&cfg); mk_sec_opt(&o, n);
	in_title[0] = nondet_char(); in_title[1] = 0; in_notitle = nondet_bool();
	__CPROVER_assume(in_title[0] != 0);
	value = (titled && !in_notitle) ? in_title : NULL;
	for (unsigned i = 0; i < 3; i++) { slot[i] = i < n ? o.values[i] : NULL; sec[i] = i < n ? o.values[i]->section : NULL; }
	if (titled && value)
		for (unsigned i = 0; i < 3; i++)
			if (i < n && match < 0 && title_eq(value, sec[i]->title, nocase)) match = (int)i;

	r = cfg_setopt(&cfg, &o, value);

	if (titled && multi && n != 0 && !value) {
		CHECK("C09,C10", r == NULL && o.nvalues == n && g_free_calls == 0 && g_dup_calls == 0, "a titled section that already has instances cannot get an untitled one: refused without effect");
	} else if (match >= 0 && (k_flags & CFGF_NO_TITLE_DUPES) && (n == 0 || multi)) {
		CHECK("C01", r == NULL && g_diag >= 1, "unique titles: a repeated title is refused with a diagnostic");
		CHECK("C01,C10", o.nvalues == n && g_free_calls == 0 && g_dup_calls == 0, "unique titles: a refused title leaves the sections untouched");
		for (unsigned i = 0; i < 3; i++) if (i < n) CHECK("C01,C10", o.values[i] == slot[i] && o.values[i]->section == sec[i], "unique titles: a refused title leaves every instance in place");
#ifdef CFGV_NO_ALLOC_FAILURE
	} else if (r == NULL) {
		CHECK("C01,C09", 0, "opening a section that nothing forbids succeeds (no allocation failure in this unit)");
#endif
	} else if (r != NULL) {
		_Bool appended = (n == 0 || multi) && match < 0;
		_Bool rebuilt = appended || multi;
		unsigned at = appended ? n : (match >= 0 && (n == 0 || multi) ? (unsigned)match : 0);
		CHECK("C01,C09", o.nvalues == (appended ? n + 1 : n), "section instances: a new title (or a multi section without titles) appends one instance, a repeated title or a single section adds none");
		CHECK("C01,C09", r == o.values[at] && (appended || r == slot[at]), "a repeated title designates the instance that carries it (same position); a single section designates its only instance");
		for (unsigned i = 0; i < 3; i++) if (i < n && i != at) CHECK("C01,C09,C16", o.values[i] == slot[i] && o.values[i]->section == sec[i], "the other instances keep their place and content");
		if (rebuilt) {
			cfg_t *ns = r->section;
			CHECK("C01", ns != NULL && (appended || ns != sec[at]), "multi sections: the instance is a newly built context");
			CHECK("C07", g_free_calls == (appended ? 0 : 1) && (appended || g_free_log[0] == sec[at]), "a replaced instance is released exactly once (its shared search path detached first)");
			CHECK("C16", g_dup_calls == 1 && g_dup_arg == g_subopts && ns->opts == g_dup_result && ns->opts != g_subopts, "every new instance gets its own copy of the declared sub-options");
			CHECK("C01,C16", ns->name != o.name && strcmp(ns->name, "o") == 0, "the instance carries a private copy of the section name");
			CHECK("C01,C16", value ? (ns->title != NULL && ns->title != value && ns->title[0] == value[0] && ns->title[1] == 0) : ns->title == NULL, "the instance carries a private copy of its title");
			CHECK("C01,C12", ns->flags == (k_cfgflags | ((k_flags & CFGF_KEYSTRVAL) ? CFGF_KEYSTRVAL : 0)), "the instance inherits the context flags (plus free-form keys when declared so)");
			CHECK("C19", ns->pff == NULL, "a new instance has no print filter of its own: it inherits the enclosing one at print time");
			CHECK("C15,C01", ns->comment == NULL && ns->path == NULL, "a new instance starts without annotation and without search path of its own (nothing else of the enclosing context leaks into it)");
			CHECK("C06", ns->line == cfg.line && ns->errfunc == cfg.errfunc && (cfg.filename ? (ns->filename != NULL && ns->filename != cfg.filename && strcmp(ns->filename, "f") == 0) : ns->filename == NULL),
			      "the instance inherits file name (private copy), line and error function");
		} else {
			CHECK("C01", r->section == sec[0] && g_free_calls == 0 && g_dup_calls == 0, "a re-opened single section is merged into its existing instance");
		}
		CHECK("C01", g_initdef_calls == ((k_flags & CFGF_DEFINIT) ? 0 : 1) && (g_initdef_calls == 0 || g_initdef_arg == r->section), "defaults are materialised per instance (once) unless already done");
		CHECK("C01", o.flags & CFGF_MODIFIED, "opening a section marks the option modified");
		CHECK("C16,C01", o.flags == (k_flags | CFGF_MODIFIED), "opening an instance leaves the declaration flags of the section option alone: they are shared by every later instance (defaults are materialised for each of them)");
	} else {
		/* allocation failure */
		CHECK("C18", o.nvalues == n || o.nvalues == n + 1, "allocation failure: at most the one new slot was added");
		KFCHECK("C18-setopt-sec-dangling", "C18", o.nvalues == n || o.values[n]->section == NULL, "allocation failure while building a section leaves no released context reachable from the new slot");
		for (unsigned i = 0; i < 3; i++) if (i < n && (int)i != match) CHECK("C18", o.values[i] == slot[i] && o.values[i]->section == sec[i], "allocation failure leaves the other instances in place");
	}
}
void h_setopt_sec(void)
{
	FOR_CFG_FLAGS(FOR_SEC_FLAGS(FOR_EACH_COUNT(b_setopt_sec)));
	CANARY("setopt_sec");
}

/* the failure paths of the section arm release every part of the half-built instance (C07 C18; constant shape so that the
 * leak check can speak): first titled instance of an empty option, file name set, any allocation may fail; only the
 * failing outcomes are looked at.  (That the new slot still POINTS to the released instance is the recorded finding
 * C18-setopt-sec-dangling of the main unit; this unit never follows that pointer.) */
void h_setopt_sec_oom_release(void)
{
	cfg_t cfg; cfg_opt_t o; cfg_value_t *r; char title[2] = "t";
	k_flags = CFGF_MULTI | CFGF_TITLE; k_cfgflags = 0; k_leftover = 0;
	mk_ctx(&cfg); cfg.filename = "f";
	mk_sec_opt(&o, 0);
	r = cfg_setopt(&cfg, &o, title);
	__CPROVER_assume(r == NULL);
	CHECK("C18,C07", o.nvalues <= 1, "a failed section creation adds at most the new slot");
	if (o.nvalues == 1) free(o.values[0]);
	if (o.values) free(o.values);
	CANARY("setopt_sec_oom_release");
}

/* ------------------------------------------------------------------------------------------------ title lookup
 * contract::cfg_opt_gettsecidx(opt, title) = index of the first instance whose title equals title (letter case ignored
 * iff the option is case-insensitive), -1 if none.  cfg_opt_gettsec: that instance / NULL; non-titled option: NULL. */
static void b_gettsec(unsigned n)
{
	cfg_opt_t o; int want = -1; long got; cfg_t *sec[3]; cfg_t *g;
	_Bool nocase = (k_flags & CFGF_NOCASE) != 0;
	mk_sec_opt(&o, n);
	in_title[0] = nondet_char(); in_title[1] = 0;
	__CPROVER_assume(in_title[0] != 0);
	for (unsigned i = 0; i < 3; i++) sec[i] = i < n ? o.values[i]->section : NULL;
	if (k_flags & CFGF_TITLE)
		for (unsigned i = 0; i < 3; i++) if (i < n && want < 0 && title_eq(in_title, sec[i]->title, nocase)) want = (int)i;
	if (k_flags & CFGF_TITLE) {
		got = cfg_opt_gettsecidx(&o, in_title);
		CHECK("C09,C11", got == want, "title lookup finds the first instance with that title (case-insensitively iff the option says so), -1 otherwise");
	}
	g = cfg_opt_gettsec(&o, in_title);
	CHECK("C09,C11", g == (((k_flags & CFGF_TITLE) && want >= 0) ? sec[want] : NULL), "section-by-title returns that instance, NULL when there is none or the option has no titles");
	CHECK("C09", cfg_opt_gettsec(NULL, in_title) == NULL && cfg_opt_gettsec(&o, NULL) == NULL, "section-by-title: NULL arguments fail");
}
void h_gettsec(void)
{
	FOR_SEC_FLAGS(FOR_EACH_COUNT(b_gettsec));
	CANARY("gettsec");
}

/* titles of different lengths (one may be a prefix of the other): lookup is by the WHOLE title */
static _Bool title_eq2(const char *a, const char *b, _Bool nocase)
{
	for (int i = 0; i < 3; i++) {
		char x = nocase ? spec_lc(a[i]) : a[i], y = nocase ? spec_lc(b[i]) : b[i];
		if (x != y) return 0;
		if (x == 0) return 1;
	}
	return 1;
}
char in_t0[3], in_t1[3], in_ask[3];
void h_gettsec_long(void)
{
	cfg_opt_t o; cfg_t s0, s1; cfg_value_t v0, v1, *vals[2]; int want; _Bool nocase = nondet_bool(); long got;
	memset(&o, 0, sizeof o); memset(&s0, 0, sizeof s0); memset(&s1, 0, sizeof s1);
	in_t0[0] = nondet_char(); in_t0[1] = nondet_char(); in_t0[2] = 0; in_t1[0] = nondet_char(); in_t1[1] = nondet_char(); in_t1[2] = 0;
	in_ask[0] = nondet_char(); in_ask[1] = nondet_char(); in_ask[2] = 0;
	__CPROVER_assume(in_t0[0] != 0 && in_t1[0] != 0 && in_ask[0] != 0);
	s0.title = in_t0; s1.title = in_t1; v0.section = &s0; v1.section = &s1; vals[0] = &v0; vals[1] = &v1;
	o.name = "o"; o.type = CFGT_SEC; o.flags = CFGF_MULTI | CFGF_TITLE | (nocase ? CFGF_NOCASE : 0); o.nvalues = 2; o.values = vals;
	want = title_eq2(in_ask, in_t0, nocase) ? 0 : title_eq2(in_ask, in_t1, nocase) ? 1 : -1;
	got = cfg_opt_gettsecidx(&o, in_ask);
	CHECK("C09,C11", got == want, "title lookup compares whole titles (a title that is a prefix of another one is a different title)");
	CHECK("C09,C11", cfg_opt_gettsec(&o, in_ask) == (want == 0 ? &s0 : want == 1 ? &s1 : NULL), "section-by-title returns the instance carrying exactly that title");
	CANARY("gettsec_long");
}

/* ------------------------------------------------------------------------------------------------ removal
 * contract::cfg_opt_rmnsec(opt, index): not a section option / index >= count -> CFG_FAIL without effect;
 * else the instance is released exactly once (shared search path detached first), its slot released, the others
 * keep their order, count - 1. */
static void b_rmnsec(unsigned n, unsigned idx)
{
	cfg_opt_t o; int rc; cfg_value_t *slot[3]; cfg_t *sec[3];
	if (!(k_flags & CFGF_MULTI) && n > 1) return;       /* a single section holds at most one instance */
	mk_sec_opt(&o, n);
	for (unsigned i = 0; i < 3; i++) { slot[i] = i < n ? o.values[i] : NULL; sec[i] = i < n ? o.values[i]->section : NULL; }
	g_free_calls = 0;
	in_index = idx;
	rc = cfg_opt_rmnsec(&o, idx);
	if (idx >= n) {
		CHECK("C09,C10", rc == CFG_FAIL && o.nvalues == n && g_free_calls == 0, "removing an instance that does not exist fails without effect");
		for (unsigned i = 0; i < 3; i++) if (i < n) CHECK("C09,C10", o.values[i] == slot[i] && o.values[i]->section == sec[i], "a refused removal leaves every instance in place");
	} else {
		CHECK("C09", rc == CFG_SUCCESS && o.nvalues == n - 1, "removal by index succeeds and shrinks the sequence by one");
		CHECK("C07", g_free_calls == 1 && g_free_log[0] == sec[idx], "the removed instance is released exactly once (its shared search path detached first)");
		for (unsigned i = 0; i < 3; i++) if (i + 1 < n) CHECK("C09", o.values[i] == slot[i < idx ? i : i + 1], "removal keeps the order of the remaining instances");
	}
	/* clean up what remains (constant shape) so that the leak check speaks about the removed slot only */
	{
		unsigned left = idx >= n ? n : n - 1;
		for (unsigned i = 0; i < left; i++) { if (o.values[i]->section->title) free(o.values[i]->section->title); free(o.values[i]->section); free(o.values[i]); }
		if (o.values) free(o.values);
	}
}
void h_rmnsec(void)
{
#define CALL(n) do { unsigned q_ = nondet_uint(); if (q_ == 0) b_rmnsec(n, 0); else if (q_ == 1) b_rmnsec(n, 1); else if (q_ == 2) b_rmnsec(n, 2); else b_rmnsec(n, 7); } while (0)
	FOR_SEC_FLAGS(FOR_EACH_COUNT(CALL));
#undef CALL
	{
		cfg_opt_t o; k_flags = CFGF_LIST; k_leftover = 0; mk_opt(&o, CFGT_INT, 1, 0);
		CHECK("C09,C10", cfg_opt_rmnsec(&o, 0) == CFG_FAIL && o.nvalues == 1, "removal from an option that is not a section fails without effect");
		CHECK("C09", cfg_opt_rmnsec(NULL, 0) == CFG_FAIL, "removal from a NULL option fails");
		drop_opt(&o);
	}
	CANARY("rmnsec");
}
/* contract::cfg_opt_rmtsec(opt, title): no titles / unknown title -> CFG_FAIL without effect; else as rmnsec(first match) */
static void b_rmtsec(unsigned n)
{
	cfg_opt_t o; int rc, want = -1; cfg_value_t *slot[3]; cfg_t *sec[3];
	_Bool nocase = (k_flags & CFGF_NOCASE) != 0;
	if (!(k_flags & CFGF_MULTI) && n > 1) return;
	mk_sec_opt(&o, n);
	in_title[0] = nondet_char(); in_title[1] = 0;
	__CPROVER_assume(in_title[0] != 0);
	for (unsigned i = 0; i < 3; i++) { slot[i] = i < n ? o.values[i] : NULL; sec[i] = i < n ? o.values[i]->section : NULL; }
	if (k_flags & CFGF_TITLE)
		for (unsigned i = 0; i < 3; i++) if (i < n && want < 0 && title_eq(in_title, sec[i]->title, nocase)) want = (int)i;
	g_free_calls = 0;
	rc = cfg_opt_rmtsec(&o, in_title);
	if (want < 0) {
		CHECK("C09,C10", rc == CFG_FAIL && o.nvalues == n && g_free_calls == 0, "removing a title that does not exist fails without effect");
		for (unsigned i = 0; i < 3; i++) if (i < n) CHECK("C09,C10", o.values[i] == slot[i] && o.values[i]->section == sec[i], "a refused removal by title leaves every instance in place");
	} else {
		CHECK("C09", rc == CFG_SUCCESS && o.nvalues == n - 1 && g_free_calls == 1 && g_free_log[0] == sec[want], "removal by title removes exactly the first instance carrying it");
		for (unsigned i = 0; i < 3; i++) if (i + 1 < n) CHECK("C09", o.values[i] == slot[(int)i < want ? i : i + 1], "removal by title keeps the order of the remaining instances");
	}
}
void h_rmtsec(void)
{
	FOR_SEC_FLAGS(FOR_EACH_COUNT(b_rmtsec));
	CANARY("rmtsec");
}
