/* Grammar units on cfg_parse_internal() (C01 C06 C07 C12 C14 C15; DESIGN 5.C01).
 *
 * The token loop cannot be closed by CBMC's loop contracts (DESIGN 2.2); the invariant rule is applied by hand through
 * the entry hook CFG_VERIF_PI_ENTRY (contracts/cfg_verif_hooks.h):
 *   h_parse_step  (induction step)  from ANY values of the loop-carried locals that satisfy Inv, one iteration on ANY
 *                 token either returns with the reference verdict / actions, or reaches the loop head with Inv again
 *                 and the reference next state / actions  (spec/grammar_spec.h)
 *   h_parse_base  (base case)       Inv holds at the first loop head for every legal entry
 * The nested activations (section body, skipped unknown section) are replaced by contract::cfg_parse_internal
 * inside the hook function, so every nesting depth is covered.  All callees are contract carriers with a ghost
 * monitor (carriers/parse_carriers.c); user callbacks are carriers with ghost verdicts.
 */
#define CFGV_OWN_PI_ENTRY
#define CFGV_DUP_FAIL_GHOST
#include "ref_strings.h"
#include "common.h"
#include "parse_ghost.h"
#include "grammar_spec.h"

enum { M_STEP, M_BASE, M_SCRIPT };
static const int *g_script_tok; static const char *const *g_script_txt; static int g_script_len, g_script_pos;
static int g_mode;

/* ---- harness inputs (appear in counterexamples) */
int in_state, in_tok, in_level, in_force, in_cfgflags, in_curtype, in_curflags, in_foundtype, in_foundflags, in_num_values, in_ignore;
_Bool in_cur_null, in_pending, in_validcb, in_found, in_setopt_ok, in_addopt_ok, in_addval_ok, in_title_pending, in_forced_opt;
int in_valid_ret, in_call_ret, in_rec_result, in_nargs;
char in_text[3];

/* ---- objects */
static cfg_t h_cfg, h_sec;
static cfg_opt_t h_cur, h_found, h_added;
static cfg_value_t h_val;
static char *h_comment, *h_title;
static int g_valid_ret;
static int cfgv_validcb(cfg_t *cfg, cfg_opt_t *opt) { cfgv_log(EV_VALID, opt, cfg, 0); return g_valid_ret; }

/* ---- addresses of the loop-carried locals (from the hook) */
static int *p_state, *p_ignore, *p_num_values; static char **p_comment, **p_opttitle; static cfg_opt_t **p_opt, *p_funcopt; static cfg_value_t **p_val;
static int g_depth, g_lex_calls, g_outer_level;
static sp_in_t g_si; static sp_out_t g_so;
static int g_diag0, g_line0;

/* Inv: the loop invariant of the token loop, over the locals and the ghost state */
int in_tokens;   /* ghost: tokens read so far (input-size assumption: < 2^30 tokens in one text) */
static int g_tokens;
static _Bool inv(int state, cfg_opt_t *opt, char *comment, char *opttitle, int ignore, int num_values, cfg_opt_t *funcopt)
{
	if (state < 0 || state > 15) return 0;
	if (state >= 1 && state <= 9 && opt == NULL) return 0;                       /* an option is being assigned / opened / called */
	if (opt != NULL && opt != &h_cur && opt != &h_found && opt != &h_added) return 0;
	if (opt && (state >= 1 && state <= 4) && (opt->type == CFGT_SEC || opt->type == CFGT_FUNC)) return 0;
	if (opt && (state == 5 || state == 6) && opt->type != CFGT_SEC) return 0;
	if (opt && (state >= 7 && state <= 9) && opt->type != CFGT_FUNC) return 0;
	if (opt && (state == 3 || state == 4) && !(opt->flags & CFGF_LIST)) return 0;
	if (opt && state == 6 && !(opt->flags & CFGF_TITLE)) return 0;
	if (opttitle != NULL && state != 5) return 0;                                /* a title is pending only between title and '{' */
	if (num_values < 0 || num_values > g_tokens) return 0;                        /* a list element costs at least one token */
	if (in_force == 10 && state < 10) return 0;                                   /* the discarding sub-parser never leaves the skip states */
	if (state == 13 ? !(ignore == '=' || ignore == ')' || ignore == '}') : 0) return 0;
	if (!(state == 8 || state == 9) && g_fn_n != 0) return 0;                     /* call arguments are collected only inside ( ) */
	if (funcopt->nvalues != (unsigned)g_fn_n) return 0;
	(void)comment;
	return 1;
}

static int g_cur_reset_entry;
static int h_cur_reset_at_entry(void) { return g_cur_reset_entry; }
_Bool in_dup_fail;
#define KF_COMMENT_CASE 0    /* (was a recorded finding until the fix "accept comments between any two tokens") */

/* translate the reference action list into expected monitor events and compare */
static void check_actions(void)
{
	int k = 0;
	cfg_opt_t *cur = in_cur_null ? NULL : &h_cur;
	for (int a = 0; a < g_so.nact && a < 6; a++) {
		int x = g_so.act[a];
		if (g_so.deprecated_optional && x == SX_FREEVAL_CUR && !(k < g_nev && g_ev[k].kind == EV_FREEVAL)) continue;
		if (x == SX_SETCOMMENT && !(k < g_nev && g_ev[k].kind == EV_SETCOMMENT)) {
			CHECK("C15", 0, "a pending annotation is attached to the option right after its first stored value");
			continue;
		}
		if (!(k < g_nev && k < CFGV_MAXEV)) { CHECK("C01,C14", 0, "every action the reference automaton prescribes for this step is performed"); return; }
		switch (x) {
		case SX_LOOKUP: CHECK("C01", g_ev[k].kind == EV_LOOKUP && g_ev[k].a == &h_cfg && g_ev[k].b == in_text, "an option name is resolved in the current context with exactly the token text"); break;
		case SX_SETOPT_TOKEN: CHECK("C01,C14", g_ev[k].kind == EV_SETOPT && g_ev[k].a == cur && g_ev[k].b == in_text, "a value token is stored into the option being assigned, with exactly the decoded token text");
			if (g_si.state == 2 || g_si.state == 3)
				CHECK("C01", (g_ev[k].c & CFGF_RESET) == (h_cur_reset_at_entry() ? CFGF_RESET : 0), "the replace/append marker set at the assignment operator is still in force when the value is stored");
			break;
		case SX_SETOPT_TITLE: CHECK("C01", g_ev[k].kind == EV_SETOPT && g_ev[k].a == cur && g_ev[k].b == (in_title_pending ? h_title : NULL), "a section is opened with the pending title (or none)"); break;
		case SX_ADDOPT: CHECK("C01", g_ev[k].kind == EV_ADDOPT && g_ev[k].a == &h_cfg && g_ev[k].b == in_text, "free-form sections create the key with the token text"); break;
		case SX_ADDVAL: CHECK("C14", g_ev[k].kind == EV_ADDVAL && g_ev[k].a == p_funcopt, "a call argument is appended to the argument vector"); break;
		case SX_CALL: CHECK("C14", g_ev[k].kind == EV_CALL && g_ev[k].a == cur && g_ev[k].b == p_funcopt && g_ev[k].c == in_nargs, "the function option's callback is called with all collected arguments"); break;
		case SX_FREEVAL_CUR: CHECK("C01", g_ev[k].kind == EV_FREEVAL && g_ev[k].a == cur, "the option's values are dropped (explicit empty list / dropped deprecated option)"); break;
		case SX_SETCOMMENT: CHECK("C15", g_ev[k].kind == EV_SETCOMMENT && g_ev[k].a == cur && g_ev[k].b == h_comment, "the pending annotation is attached to the option just assigned"); break;
		case SX_VALID: CHECK("C14", g_ev[k].kind == EV_VALID && g_ev[k].a == cur && g_ev[k].b == &h_cfg, "the validation callback runs on the option just stored, before any later item"); break;
		case SX_RECURSE_SECTION: CHECK("C01", g_ev[k].kind == EV_RECURSE && g_ev[k].a == &h_sec && g_ev[k].c == -1, "a section body is parsed into the section instance, one level deeper"); break;
		case SX_RECURSE_SKIP: CHECK("C12", g_ev[k].kind == EV_RECURSE && g_ev[k].a == &h_cfg && g_ev[k].c == 10, "an undeclared section body is skipped by the discarding sub-parser"); break;
		default: break;
		}
		k++;
	}
	CHECK("C01,C12,C14", g_nev == k, "no action beyond the reference ones (no store, lookup, callback or release the language does not prescribe)");
}


static void check_diags(void)
{
	int d = g_diag - g_diag0;
	if (g_so.outcome == SP_RET_ERROR) {
		if (g_so.diag_required) CHECK("C06", d >= 1 && g_diag_cfg == &h_cfg, "a rejection by the parser is reported through the error function of the current context");
		else if (g_so.diag_by_callee) CHECK("C06", d >= 1, "a rejection found by a callee (scanner, lookup, conversion, nested parse) has been reported");
		/* silent causes: callback veto, allocation failure - no diagnostic demanded */
	} else if (in_state == 0 && in_tok == CFGT_STR && !in_found && !g_si.ctx_ignore_unknown && g_si.ctx_keystrval && in_addopt_ok && !(g_so.deprecated_diag)) {
		KFCHECK("C06-freeform-key-diagnostic", "C06", d == 0, "creating a key in a free-form section is an accepted step: it delivers no diagnostic");
	} else if (g_so.no_diag) {
		CHECK("C06,C12,C15", d == 0, "an accepted step delivers no diagnostic");
	} else if (g_so.deprecated_diag && !g_so.deprecated_optional) {
		CHECK("C01", d >= 1, "a finished deprecated option is reported");
	}
}

static void check_flags(void)
{
	if (g_so.set_reset) CHECK("C01", (h_cur.flags & CFGF_RESET), "'=' marks the option for replacement (old values and defaults are dropped by the next store)");
	if (g_so.clear_reset) CHECK("C01", !(h_cur.flags & CFGF_RESET), "'+=' keeps what the option holds, defaults included");
	if (g_so.set_modified) CHECK("C01", (h_cur.flags & CFGF_MODIFIED), "an assignment marks the option modified");
}

/* loop head reached again: the step continues */
/* ownership at the loop head (C07): a step that continues never reaches the end of the program, where the leak check sits;
 * so the same question is asked here - once everything the loop-carried state owns (pending annotation, pending title,
 * collected call arguments) is released, no allocation may be left.  (The run ends right after: nothing is used again.) */
extern const void *__CPROVER_memory_leak;
static void loop_head_ownership(void)
{
	if (*p_comment) free(*p_comment);
	if (*p_opttitle) free(*p_opttitle);
	cfgv_release_args(NULL);
	CHECK("C07,C15", __CPROVER_memory_leak == NULL, "at the loop head nothing is allocated beyond the pending annotation, the pending title and the collected call arguments (a replaced or consumed one has been released)");
}
static void check_continue(void)
{
	cfg_opt_t *want_opt = g_so.next_cur == 1 ? &h_found : g_so.next_cur == 2 ? &h_added : g_so.next_cur == 3 ? NULL : (in_cur_null ? NULL : &h_cur);
	if (KF_COMMENT_CASE) {
		KFCHECK("C15-comment-token-only-in-name-state", "C15", *p_state == in_state && g_nev == 0, "a comment between two tokens inside an item is transparent (same state, no action)");
		return;
	}
	if (in_state >= 10) {
		/* the discarding sub-parser: its transition table is the code's own business (the reference skipper is checked by
		 * the scripted units); what the statement C12 demands of every step is stated here: it stays inside the skipper or
		 * is back at the item level, performs no action, delivers no diagnostic, keeps no annotation pending */
		if (in_tok == CFGT_COMMENT) CHECK("C15,C12", *p_state == in_state && g_nev == 0, "a comment between the tokens of a skipped item is transparent (same state, no action)");
		CHECK("C12", *p_state == 0 || (*p_state >= 10 && *p_state <= 15), "while skipping an undeclared item the parser stays in the skipper or returns to the item level");
		CHECK("C12", in_force != 10 || *p_state >= 10, "the discarding sub-parser of a skipped section never resumes normal parsing");
		CHECK("C12,C15", in_state != 10 || *p_state == 10 || *p_comment == NULL || *p_comment == h_comment, "no new annotation is picked up while skipping");
		if (in_state != 12) CHECK("C12", g_nev == 0, "skipping performs no lookup, store, callback or release");
		else CHECK("C12", g_nev <= 1 && (g_nev == 0 || g_ev[0].kind == EV_RECURSE), "skipping performs no action except entering the discarding sub-parser");
		CHECK("C12,C06", g_diag == g_diag0, "a skipping step that continues delivers no diagnostic");
		CHECK("C07,C02,C12,C15", *p_comment == NULL || __CPROVER_r_ok(*p_comment, 1), "a pending annotation is a live block (never a released one)");
		CHECK("C01,C02,C07", inv(*p_state, *p_opt, *p_comment, *p_opttitle, *p_ignore, *p_num_values, p_funcopt), "INV: the loop invariant holds again at the loop head");
		loop_head_ownership();
		return;
	}
	CHECK("C01,C12,C04,C05,C14,C18", g_so.outcome == SP_CONT, "the parse continues exactly when the reference automaton continues");
	if (g_so.outcome != SP_CONT) return;
	CHECK("C01,C12,C05", *p_state == g_so.next_state, "the next parser state is the reference one");
	CHECK("C01", *p_opt == want_opt, "the option being processed is the one the name resolved to (or the created key)");
	CHECK("C01,C05", *p_num_values == g_so.next_num_values, "the count of list elements read so far is exact");
	if (g_so.next_state == 13) CHECK("C12", *p_ignore == g_so.next_ignore, "the skipper waits for the right closing token");
	CHECK("C15,C07", g_so.comment_after == 0 ? *p_comment == NULL : g_so.comment_after == 1 ? *p_comment == h_comment : (*p_comment != NULL && *p_comment != in_text && *p_comment != h_comment && strcmp(*p_comment, in_text) == 0),
	      "the pending annotation is kept, consumed or replaced by a private copy of the comment text as the language prescribes");
	check_actions(); check_diags(); check_flags();
	{
		/* position tracking (C06): the parser proper never moves the line counter (the scanner does); after a section body
		 * the enclosing context continues at the line the body ended on */
		_Bool body = 0;
#define EVBODY(i) ((i) < CFGV_MAXEV && (i) < g_nev && g_ev[(i) < CFGV_MAXEV ? (i) : 0].kind == EV_RECURSE && g_ev[(i) < CFGV_MAXEV ? (i) : 0].c == -1)
		body = EVBODY(0) || EVBODY(1) || EVBODY(2) || EVBODY(3) || EVBODY(4) || EVBODY(5) || EVBODY(6) || EVBODY(7);
		CHECK("C06", h_cfg.line == (body ? h_sec.line : g_line0), "the context's line number moves only with the scanner, and continues after a section body at the line the body ended on");
	}
	CHECK("C07,C02,C12,C15", *p_comment == NULL || __CPROVER_r_ok(*p_comment, 1), "a pending annotation is a live block (never a released one)");
	CHECK("C01,C02,C07", inv(*p_state, *p_opt, *p_comment, *p_opttitle, *p_ignore, *p_num_values, p_funcopt), "INV: the loop invariant holds again at the loop head");
	loop_head_ownership();
}

/* ------------------------------------------------------------------ carriers living in the harness TU */
int cfg_yylex(cfg_t *cfg)
{
	g_lex_calls++;
	if (g_mode == M_SCRIPT) {
		if (g_script_pos >= g_script_len) return EOF;
		cfg_yylval = (char *)g_script_txt[g_script_pos];
		return g_script_tok[g_script_pos++];
	}
	__CPROVER_assert(cfg == &h_cfg, "C01: tokens are read for the context being parsed");
	if (g_lex_calls == 1) {
		if (g_mode == M_BASE) {
			CHECK("C01,C02", inv(*p_state, *p_opt, *p_comment, *p_opttitle, *p_ignore, *p_num_values, p_funcopt), "INV: the loop invariant holds at the first loop head for every legal entry");
			CHECK("C01", *p_state == (in_force == -1 ? 0 : in_force) && *p_num_values == 0 && *p_comment == NULL && *p_opttitle == NULL, "entry: start state, no pending annotation or title");
			__CPROVER_assume(0);
		}
		cfg_yylval = in_text;
		g_tokens++;
		if (in_tok == 0) g_diag++;     /* contract::cfg_yylex: the error token is returned only after a diagnostic (scanner units) */
		return in_tok;
	}
	check_continue();
	__CPROVER_assume(0);
	return 0;
}
void cfg_yylex_destroy(void) {}
int cfg_lexer_include(cfg_t *cfg, const char *fname) { (void)cfg; (void)fname; return 0; }
void cfg_scan_fp_begin(FILE *fp) { (void)fp; }
void cfg_scan_fp_end(void) {}

int cfgv_pi_entry(cfg_t *cfg, int level, int force_state, cfg_opt_t *force_opt, int *state, char **comment, char **opttitle,
		  cfg_opt_t **opt, cfg_value_t **val, cfg_opt_t *funcopt, int *ignore, int *num_values, int *result)
{
	if (g_mode == M_SCRIPT) { g_depth++; return 0; }      /* scripted runs execute the nested activations for real */
	if (g_depth > 0) {
		/* contract::cfg_parse_internal for the nested activations */
		cfgv_log(EV_RECURSE, cfg, NULL, force_state);
		CHECK("C01,C12", force_opt == NULL && level == g_outer_level + 1 && (force_state == -1 || force_state == 10), "nested parse: one level deeper, section body (-1) or discard mode (10), no forced option");
		KFCHECK("C02-recursion-depth-unbounded", "C02,C12", level <= 10000, "nesting deeper than a fixed limit is refused instead of recursing further (stack bound)");
		if (force_state == -1) {
			CHECK("C06", cfg == &h_sec && h_sec.errfunc == h_cfg.errfunc && h_sec.line == h_cfg.line, "a section body is parsed with the section's position and error function set from the enclosing context");
			CHECK("C13,C17", h_sec.path == h_cfg.path, "a section shares the search path of the enclosing context");
			h_sec.line = h_sec.line + (nondet_bool() ? 1 : 0);
		}
		/* post (assumed here, and guaranteed by this very unit for the outer activation - see "result range" below):
		 * a section body ends with EOF/'}' or a rejection; the discarding sub-parser with "continue" or a rejection */
		__CPROVER_assume(force_state == 10 ? in_rec_result != SP_RET_EOF : in_rec_result != SP_RET_CONTINUE);
		/* the verdict is a ghost input; a rejection has been reported by the nested parse (or had a silent cause) */
		if (in_rec_result == SP_RET_ERROR) g_diag++;
		*result = in_rec_result == SP_RET_EOF ? STATE_EOF : in_rec_result == SP_RET_CONTINUE ? STATE_CONTINUE : STATE_ERROR;
		return 1;
	}
	g_depth++;
	p_state = state; p_comment = comment; p_opttitle = opttitle; p_opt = opt; p_val = val; p_funcopt = funcopt; p_ignore = ignore; p_num_values = num_values;
	g_outer_level = level;
	g_argvec = funcopt;
	if (g_mode == M_STEP) {
		*state = in_state;
		*opt = in_cur_null ? NULL : &h_cur;
		*comment = h_comment;
		*opttitle = h_title;
		*ignore = in_ignore;
		*num_values = in_num_values;
		funcopt->nvalues = (unsigned)g_fn_n;
		g_tokens = in_tokens;
		__CPROVER_assume(in_tokens >= 0 && in_tokens < (1 << 30));
		__CPROVER_assume(inv(*state, *opt, *comment, *opttitle, *ignore, *num_values, funcopt));
	}
	return 0;
}

static void setup(void)
{
	memset(&h_cfg, 0, sizeof h_cfg); memset(&h_sec, 0, sizeof h_sec);
	memset(&h_cur, 0, sizeof h_cur); memset(&h_found, 0, sizeof h_found); memset(&h_added, 0, sizeof h_added);
	in_cfgflags = nondet_int();
	h_cfg.name = "root"; h_cfg.flags = in_cfgflags; h_cfg.errfunc = cfgv_errfunc; h_cfg.line = nondet_int(); h_cfg.path = (cfg_searchpath_t *)&h_added;
	__CPROVER_assume(h_cfg.line >= 0 && h_cfg.line < 1000000);
	g_line0 = h_cfg.line;
	in_curtype = nondet_int(); in_curflags = nondet_int(); in_foundtype = nondet_int(); in_foundflags = nondet_int();
	__CPROVER_assume(in_curtype >= CFGT_INT && in_curtype <= CFGT_PTR && in_foundtype >= CFGT_INT && in_foundtype <= CFGT_PTR);
	h_cur.name = "cur"; h_cur.type = in_curtype; h_cur.flags = in_curflags;
	h_found.name = "found"; h_found.type = in_foundtype; h_found.flags = in_foundflags;
	h_added.name = "key"; h_added.type = CFGT_STR;
	in_validcb = nondet_bool();
	if (in_validcb) { h_cur.validcb = cfgv_validcb; }
	h_val.section = &h_sec;
	in_text[0] = nondet_char(); in_text[1] = nondet_char(); in_text[2] = 0;
	g_nev = 0; g_diag = 0; g_depth = 0; g_lex_calls = 0;
}

void h_parse_step(void)
{
	int rc;
	g_mode = M_STEP;
	setup();
	in_state = nondet_int(); in_tok = nondet_int(); in_level = nondet_int(); in_force = nondet_bool() ? 10 : -1;
	__CPROVER_assume(in_level >= 0 && in_level < 1000000);
	__CPROVER_assume(in_tok == 0 || in_tok == EOF || in_tok == '{' || in_tok == '}' || in_tok == '(' || in_tok == ')' || in_tok == '=' || in_tok == '+' || in_tok == ',' || in_tok == CFGT_STR || in_tok == CFGT_COMMENT);
	in_cur_null = nondet_bool(); in_pending = nondet_bool(); in_title_pending = nondet_bool(); in_forced_opt = in_force == -1 && nondet_bool();
	in_num_values = nondet_int(); in_ignore = nondet_int(); in_tokens = nondet_int();
	__CPROVER_assume(in_tokens >= 0 && in_tokens < (1 << 30) && in_num_values >= 0 && in_num_values <= in_tokens);
	in_found = nondet_bool(); in_setopt_ok = nondet_bool(); in_addopt_ok = nondet_bool(); in_addval_ok = nondet_bool();
	in_valid_ret = nondet_int(); in_call_ret = nondet_int(); in_rec_result = nondet_int();
	__CPROVER_assume(in_rec_result == SP_RET_EOF || in_rec_result == SP_RET_ERROR || in_rec_result == SP_RET_CONTINUE);
	in_nargs = nondet_int(); __CPROVER_assume(in_nargs >= 0 && in_nargs <= 1);
	in_dup_fail = nondet_bool(); cfgv_dup_fail = in_dup_fail;
#ifdef CFGV_STEP_ARGS_LEAK_CASE
	/* the dedicated unit for the recorded finding: a rejection while call arguments have been collected */
	__CPROVER_assume(in_state == 8 || in_state == 9);
#else
	/* here the argument vector is non-empty only on steps that pass it on (call, separator, one more argument) */
	__CPROVER_assume(in_nargs == 0 || in_tok == ')' || (in_state == 9 && in_tok == ',') || (in_state == 8 && in_tok == CFGT_STR && in_addval_ok && !in_dup_fail));
	__CPROVER_assume(!(in_state == 8 && in_tok == CFGT_STR && in_addval_ok && in_dup_fail));
#endif
	h_comment = in_pending ? cfgv_string(2) : NULL;
	h_title = in_title_pending ? cfgv_string(2) : NULL;
	g_fn_n = 0;
	if ((in_state == 8 || in_state == 9) && in_nargs == 1) {
		g_fn_val[0] = cfgv_alloc(sizeof(cfg_value_t)); g_fn_val[0]->string = cfgv_string(2); g_fn_n = 1;
	}
	g_lookup_result = in_found ? &h_found : NULL;
	g_setopt_ok = in_setopt_ok; g_setopt_val = &h_val;
	g_addopt_result = in_addopt_ok ? &h_added : NULL;
	g_addval_ok = in_addval_ok; g_call_ret = in_call_ret; g_valid_ret = in_valid_ret;
	g_cur_reset_entry = (in_curflags & CFGF_RESET) != 0;

	/* reference step */
	g_si.state = in_state; g_si.tok = in_tok; g_si.level = in_level; g_si.skipmode = in_force == 10;
	g_si.section_body = in_level > 0 && in_force == -1 && !in_forced_opt;     /* default values are parsed at level 1 too, but with their option forced */
	g_si.ctx_comments = (in_cfgflags & CFGF_COMMENTS) != 0; g_si.ctx_ignore_unknown = (in_cfgflags & CFGF_IGNORE_UNKNOWN) != 0; g_si.ctx_keystrval = (in_cfgflags & CFGF_KEYSTRVAL) != 0;
	g_si.cur_null = in_cur_null; g_si.cur_is_sec = in_curtype == CFGT_SEC; g_si.cur_is_func = in_curtype == CFGT_FUNC;
	g_si.cur_list = (in_curflags & CFGF_LIST) != 0; g_si.cur_title = (in_curflags & CFGF_TITLE) != 0;
	g_si.cur_deprecated = (in_curflags & CFGF_DEPRECATED) != 0; g_si.cur_drop = (in_curflags & CFGF_DROP) != 0; g_si.cur_validcb = in_validcb;
	g_si.cur_reset_after = (in_curflags & CFGF_RESET) != 0;
	g_si.pending_comment = in_pending; g_si.num_values = in_num_values; g_si.ignore = in_ignore;
	g_si.found = in_found; g_si.found_is_sec = in_foundtype == CFGT_SEC; g_si.found_is_func = in_foundtype == CFGT_FUNC; g_si.found_title = (in_foundflags & CFGF_TITLE) != 0;
	g_si.setopt_ok = in_setopt_ok; g_si.valid_ret = in_valid_ret; g_si.addopt_ok = in_addopt_ok; g_si.addval_ok = in_addval_ok; g_si.call_ret = in_call_ret;
	g_si.rec_result = in_rec_result;
	g_si.strdup_ok = !in_dup_fail;
	spec_step(&g_si, &g_so);
	g_diag0 = 0;

	rc = cfg_parse_internal(&h_cfg, in_level, in_force, in_forced_opt ? &h_cur : NULL);

	/* the function returned: the step ended the parse */
	{
		if (KF_COMMENT_CASE) {
			KFCHECK("C15-comment-token-only-in-name-state", "C15", 0, "a comment between two tokens inside an item never ends the parse");
		} else if (in_state >= 10) {
			/* the discarding sub-parser ended the activation: only the statement-level facts are demanded (see check_continue) */
			CHECK("C15,C12", in_tok != CFGT_COMMENT, "a comment between the tokens of a skipped item never ends the parse");
			CHECK("C12", rc == STATE_ERROR || (rc == STATE_CONTINUE && in_force == 10), "the skipper ends an activation only by rejecting or, in a skipped section, by handing back to its caller");
			CHECK("C12,C06", rc != STATE_ERROR || g_diag >= 1, "a rejection while skipping is reported");
			CHECK("C12", rc == STATE_ERROR || g_diag == 0, "handing back to the caller delivers no diagnostic");
			if (in_state != 12) CHECK("C12", g_nev == 0, "skipping performs no lookup, store, callback or release");
		} else {
			CHECK("C01,C12,C04,C05,C14,C18", g_so.outcome != SP_CONT, "the parse ends exactly when the reference automaton ends it");
			CHECK("C01,C06,C04,C05", rc == (g_so.outcome == SP_RET_EOF ? STATE_EOF : g_so.outcome == SP_RET_CONTINUE ? STATE_CONTINUE : STATE_ERROR), "the verdict (accepted / rejected / sub-section skipped) is the reference one");
			if (g_so.outcome != SP_CONT) { check_actions(); check_diags(); }
		}
		CHECK("C01,C12", in_force == 10 ? rc != STATE_EOF : rc != STATE_CONTINUE, "result range: a section body / top level never answers 'continue', the discarding sub-parser never answers 'end of section'");
		/* C07: whatever the verdict, the pending annotation and the pending title have been released (leak check),
		 * and the collected call arguments too */
		if (g_fn_n > 0) {
			CHECK("C07", 0, "a rejected parse releases the call arguments collected so far");
			cfgv_release_args(NULL);
		}
	}
	CANARY("parse_step");
}

void h_parse_base(void)
{
	cfg_opt_t *fo;
	g_mode = M_BASE;
	setup();
	in_level = nondet_int(); __CPROVER_assume(in_level >= 0 && in_level < 1000);
	in_force = nondet_int();
	g_fn_n = 0; h_comment = NULL; h_title = NULL; g_tokens = 0;
	/* the entries the code base uses: parse_fp / section body (-1, none), discard (10, none), defaults (0 function, 2 scalar, 3 list; option forced) */
	__CPROVER_assume(in_force == -1 || in_force == 10 || in_force == 0 || in_force == 2 || in_force == 3);
	fo = (in_force == 0 || in_force == 2 || in_force == 3) ? &h_cur : NULL;
	if (in_force == 0) __CPROVER_assume(in_curtype == CFGT_FUNC);
	if (in_force == 2) __CPROVER_assume(in_curtype != CFGT_FUNC && in_curtype != CFGT_SEC && !(in_curflags & CFGF_LIST));
	if (in_force == 3) __CPROVER_assume(in_curtype != CFGT_FUNC && in_curtype != CFGT_SEC && (in_curflags & CFGF_LIST));
	in_cur_null = fo == NULL;
	(void)cfg_parse_internal(&h_cfg, in_level, in_force, fo);
	CHECK("C02", 0, "base case: the first loop head is reached (unreachable here)");
}


/* ------------------------------------------------------------------------------------------------ scripted runs (C12)
 * The step unit pins the skipper's transition table; whether a whole undeclared item is skipped as the LANGUAGE defines
 * it is decided here on concrete token scripts run through the real function (nested activations included):
 * with ignore-unknown, "<item> i = 5" must be accepted, store exactly "5" into i, and deliver no diagnostic;
 * without the flag the same text is rejected with a diagnostic. */
#define T_S CFGT_STR
static int run_script(const int *tok, const char *const *txt, int len, int ctxflags)
{
	g_mode = M_SCRIPT;
	setup();
	h_cfg.flags = ctxflags; h_cfg.line = 1;
	h_found.type = CFGT_INT; h_found.flags = 0; h_found.validcb = NULL;
	g_lookup_by_name = 1; g_lookup_result = &h_found; g_setopt_ok = 1; g_setopt_val = &h_val;
	g_script_tok = tok; g_script_txt = txt; g_script_len = len; g_script_pos = 0; g_fn_n = 0; g_tokens = 0;
	return cfg_parse_internal(&h_cfg, 0, -1, NULL);
}
static _Bool stored_once_5(void)
{
	int n = 0; _Bool ok = 1;
	for (int k = 0; k < CFGV_MAXEV; k++)
		if (k < g_nev && g_ev[k].kind == EV_SETOPT) { n++; if (g_ev[k].a != &h_found || ((const char *)g_ev[k].b)[0] != '5') ok = 0; }
	return n == 1 && ok;
}
#define SCRIPT(name, kfid, ...) \
void h_script_##name(void) { \
	static const int tok[] = { __VA_ARGS__ }; static const char *const txt[] = { SCRIPT_TXT_##name }; int rc; \
	rc = run_script(tok, txt, (int)(sizeof tok / sizeof tok[0]), CFGF_IGNORE_UNKNOWN); \
	if (kfid[0]) KFCHECK(kfid, "C12", rc == STATE_EOF && g_diag == 0 && stored_once_5(), "with ignore-unknown an undeclared item is skipped: the text is accepted, the following assignment is applied once, no diagnostic"); \
	else CHECK("C12", rc == STATE_EOF && g_diag == 0 && stored_once_5(), "with ignore-unknown an undeclared item is skipped: the text is accepted, the following assignment is applied once, no diagnostic"); \
	rc = run_script(tok, txt, (int)(sizeof tok / sizeof tok[0]), 0); \
	CHECK("C12,C06", rc == STATE_ERROR && g_diag >= 1, "without ignore-unknown the same text is rejected with a diagnostic"); \
	CANARY("script_" #name); }
#define SCRIPT_TXT_assign "u", "=", "1", "i", "=", "5"
SCRIPT(assign, "", T_S, '=', T_S, T_S, '=', T_S)
#define SCRIPT_TXT_list "u", "=", "{", "1", ",", "2", "}", "i", "=", "5"
SCRIPT(list, "", T_S, '=', '{', T_S, ',', T_S, '}', T_S, '=', T_S)
#define SCRIPT_TXT_append "u", "+=", "{", "1", "}", "i", "=", "5"
SCRIPT(append, "", T_S, '+', '{', T_S, '}', T_S, '=', T_S)
#define SCRIPT_TXT_call "u", "(", "1", ",", "2", ")", "i", "=", "5"
SCRIPT(call, "", T_S, '(', T_S, ',', T_S, ')', T_S, '=', T_S)
#define SCRIPT_TXT_emptysec "u", "{", "}", "i", "=", "5"
SCRIPT(emptysec, "C12-skipper-empty-section", T_S, '{', '}', T_S, '=', T_S)
#define SCRIPT_TXT_sec "u", "{", "a", "=", "1", "}", "i", "=", "5"
SCRIPT(sec, "C12-skipper-section-with-assignment", T_S, '{', T_S, '=', T_S, '}', T_S, '=', T_S)
#define SCRIPT_TXT_titled "u", "t", "{", "x", "=", "1", "y", "=", "2", "}", "i", "=", "5"
SCRIPT(titled, "C12-skipper-titled-section", T_S, T_S, '{', T_S, '=', T_S, T_S, '=', T_S, '}', T_S, '=', T_S)
#define SCRIPT_TXT_nested "u", "{", "v", "{", "}", "}", "i", "=", "5"
SCRIPT(nested, "C12-skipper-nested-section", T_S, '{', T_S, '{', '}', '}', T_S, '=', T_S)
#define SCRIPT_TXT_twoassign "u", "{", "a", "=", "1", "b", "=", "2", "}", "i", "=", "5"
SCRIPT(twoassign, "C12-skipper-section-two-assignments", T_S, '{', T_S, '=', T_S, T_S, '=', T_S, '}', T_S, '=', T_S)
