/* S1 units (DESIGN 3.4): contracts written in CBMC's contract language on forward declarations
 * (contracts/confuse_contracts.h) and ENFORCED by goto-instrument --dfcc on the real bodies, frames included.
 * Each entry just calls the function with unconstrained arguments: the preconditions come from the requires clauses. */
#include "common.h"
void h_dfcc_addval(void) { cfg_opt_t *o; cfg_addval(o); }
void h_dfcc_errfunc(void) { cfg_t *c; cfg_errfunc_t f; cfg_set_error_function(c, f); }
void h_dfcc_pff(void) { cfg_t *c; cfg_print_filter_func_t f; cfg_set_print_filter_func(c, f); }
void h_dfcc_pf(void) { cfg_opt_t *o; cfg_print_func_t f; cfg_opt_set_print_func(o, f); }
void h_dfcc_size(void) { cfg_opt_t *o; cfg_opt_size(o); }
void h_dfcc_title(void) { cfg_t *c; cfg_title(c); }
void h_dfcc_getnint(void) { cfg_opt_t *o; unsigned i; cfg_opt_getnint(o, i); }
/* loops closed by loop contracts (DESIGN 10.8) */
void h_dfcc_numopts(void) { cfg_opt_t *o; cfg_numopts(o); }
void h_dfcc_getnopt(void) { cfg_t *c; unsigned i; cfg_getnopt(c, i); }
void h_dfcc_num(void) { cfg_t *c; cfg_num(c); }
/* cfg_indent under its loop contract: the output stream is the ghost counter cfgv_blanks */
#ifdef CFGV_DFCC_INDENT
_Bool cfgv_badout; FILE *cfgv_fp;
int fprintf(FILE *fp, const char *fmt, ...)
{
	if (fp != cfgv_fp || fmt[0] != ' ' || fmt[1] != ' ' || fmt[2] != 0) cfgv_badout = 1; else cfgv_blanks += 2;
	return 2;
}
int fputs(const char *str, FILE *fp)      /* the same blanks through another stdio routine are the same output */
{
	if (fp != cfgv_fp || str[0] != ' ' || str[1] != ' ' || str[2] != 0) cfgv_badout = 1; else cfgv_blanks += 2;
	return 1;
}
int fputc(int c, FILE *fp)
{
	if (fp != cfgv_fp || c != ' ') cfgv_badout = 1; else cfgv_blanks += 1;
	return c;
}
void h_dfcc_indent(void) { FILE *fp; int d; cfg_indent(fp, d); }
#endif
/* cfg_getopt_leaf under its loop contract: string comparison is abstract (contract text in confuse_contracts.h) */
#ifdef CFGV_DFCC_LEAF
char cfgv_names[CFGV_MAXOPTS]; _Bool cfgv_eq_cs[CFGV_MAXOPTS], cfgv_eq_ci[CFGV_MAXOPTS]; const char *cfgv_asked;
static int cfgv_cmp(const char *a, const char *b, const _Bool *verdict)
{
	const char *e = __CPROVER_same_object(a, cfgv_names) ? a : b, *o = __CPROVER_same_object(a, cfgv_names) ? b : a;   /* either argument order */
	__CPROVER_assert(o == cfgv_asked, "[C01,C11] the comparison is with the name asked for");
	__CPROVER_assert(__CPROVER_same_object(e, cfgv_names), "[C01,C11] the comparison is with the name of an entry of the option array");
	return verdict[__CPROVER_POINTER_OFFSET(e)] ? 0 : (nondet_bool() ? 1 : -1);
}
int strcmp(const char *a, const char *b) { return cfgv_cmp(a, b, cfgv_eq_cs); }
int strcasecmp(const char *a, const char *b) { return cfgv_cmp(a, b, cfgv_eq_ci); }
void h_dfcc_leaf(void) { cfg_t *c; const char *n; cfg_getopt_leaf(c, n); }
#endif
/* cfg_print_pff_indent under its loop contract: filters and the option printer are monitor carriers */
#ifdef CFGV_DFCC_PRINTCFG
int cfgv_depth; cfg_t *cfgv_pc; FILE *cfgv_fp; cfg_print_filter_func_t cfgv_eff;
static int cfgv_filter(cfg_t *cfg, cfg_opt_t *opt, cfg_print_filter_func_t self)
{
	__CPROVER_assert(self == cfgv_eff, "[C19] the filter asked is the effective one: the context's own, else the inherited one");
	__CPROVER_assert(cfg == cfgv_pc && opt == &cfgv_pc->opts[cfgv_pos] && !cfgv_fasked, "[C19] the filter is asked once per entry, in declaration order, with the context being printed");
	if (nondet_bool()) { cfgv_pos++; return 1 + (int)nondet_bool(); }       /* rejected: this entry is done */
	cfgv_fasked = 1; return 0;
}
int cfgv_filter_own(cfg_t *cfg, cfg_opt_t *opt) { return cfgv_filter(cfg, opt, cfgv_filter_own); }
int cfgv_filter_inh(cfg_t *cfg, cfg_opt_t *opt) { return cfgv_filter(cfg, opt, cfgv_filter_inh); }
void h_dfcc_printcfg(void) { cfg_t *c; FILE *fp; cfg_print_filter_func_t f; int d; cfg_print_pff_indent(c, fp, f, d); }
void h_dfcc_print_indent(void) { cfg_t *c; FILE *fp; int d; cfg_print_indent(c, fp, d); }
void h_dfcc_print(void) { cfg_t *c; FILE *fp; cfg_print(c, fp); }
#endif
