/* C05 lemma units over the SPEC functions (no repository code in this TU): the reference decoding of a double-quoted
 * string (spec/lex_spec.h, tied to the scanner by the L-DFA / L-ACT units) inverts the reference value printer
 * (spec/print_spec.h, tied to cfg_opt_nprint_var / cfg_opt_print_pff_indent by the printer units).
 *   decode_dq(print_str(s)) == s            for every string s of <= RTN bytes (1..255)
 *   decode_dq('"' t '"')    == t            for every section title t (titles are printed without escaping)
 */
#include <string.h>
#include "lex_spec.h"
#include "print_spec.h"
#ifndef RTN
#define RTN 3
#endif
unsigned char in_s[RTN + 1];

static void input(void)
{
	unsigned n = nondet_uint();
	__CPROVER_assume(n <= RTN);
	for (unsigned i = 0; i < RTN; i++) { in_s[i] = nondet_uchar(); if (i >= n) in_s[i] = 0; else __CPROVER_assume(in_s[i] != 0); }
	in_s[RTN] = 0;
}
static _Bool has_env_form(const unsigned char *s)
{
	/* "${" followed somewhere by "}" */
	for (unsigned i = 0; i + 1 < RTN; i++)
		if (s[i] == '$' && s[i + 1] == '{')
			for (unsigned j = i + 2; j < RTN; j++) if (s[j] == '}') return 1;
	return 0;
}
void h_roundtrip_str(void)
{
	unsigned char printed[2 * RTN + 3], back[2 * RTN + 3]; unsigned pn, bn; int ok, subst; size_t n;
	input();
	n = strlen((const char *)in_s);
	pn = spec_print_str((const char *)in_s, printed);
	CHECK("C05", pn >= 2 && printed[0] == '"', "a printed string starts with the quote that opens a double-quoted string");
	ok = spec_decode_dq(printed + 1, pn - 1, back, &bn, &subst);
	if (has_env_form(in_s))
		KFCHECK("C05-env-substitution-in-printed-string", "C05", ok && !subst && bn == n && memcmp(back, in_s, n) == 0, "a printed string value containing ${...} reads back as the same bytes");
	else {
		CHECK("C05", ok && !subst, "the printed form of a string value is exactly one well-formed double-quoted string");
		CHECK("C05", bn == n && memcmp(back, in_s, n) == 0, "reading the printed form back yields the same bytes");
	}
	CANARY("roundtrip_str");
}
void h_roundtrip_title(void)
{
	unsigned char printed[RTN + 3], back[RTN + 3]; unsigned bn; int ok, subst; size_t n; _Bool special = 0;
	input();
	n = strlen((const char *)in_s);
	printed[0] = '"'; memcpy(printed + 1, in_s, n); printed[n + 1] = '"';          /* titles are written as "%s" (spec_print_opt) */
	ok = spec_decode_dq(printed + 1, (unsigned)n + 1, back, &bn, &subst);
	for (unsigned i = 0; i < RTN; i++) if (in_s[i] == '"' || in_s[i] == '\\') special = 1;
	if (special || has_env_form(in_s))
		KFCHECK("C05-title-printed-unescaped", "C05", ok && !subst && bn == n && memcmp(back, in_s, n) == 0, "a printed section title containing a quote, a backslash or ${...} reads back as the same bytes");
	else
		CHECK("C05", ok && !subst && bn == n && memcmp(back, in_s, n) == 0, "a printed section title reads back as the same bytes");
	CANARY("roundtrip_title");
}
