/* C05 lemma units over the SPEC functions (no repository code in this TU): the reference decoding of a double-quoted
 * string (spec/lex_spec.h, tied to the scanner by the L-DFA / L-ACT units) inverts the reference value printer
 * (spec/print_spec.h, tied to cfg_opt_nprint_var / cfg_opt_print_pff_indent by the printer units).
 *   decode_dq(print_str(s)) == s            for every string s of <= RTN bytes (1..255)
 *   decode_dq('"' t '"')    == t            for every section title t (titles are printed without escaping)
 */
#include <string.h>
#include "lex_spec.h"
#include "print_spec.h"
#ifndef RTN
#define RTN 3
#endif
unsigned char in_s[RTN + 1];

/* reference scanner for the text after an opening double quote: longest match per token, decode by form.
 * returns 1 iff the text is exactly one string literal body closed by its quote at the very end; env: ghost "substituted" flag */
static int spec_decode_dq(const unsigned char *t, unsigned n, unsigned char *out, unsigned *outn, int *substituted)
{
	unsigned pos = 0; *outn = 0; *substituted = 0;
	while (pos < n) {
		int s = LD_START, form = F_NONE; unsigned len = 0, i = pos;
		while (i < n) {
			s = spec_lex_step(s, t[i]);
			if (s == LS_DEAD) break;
			i++;
			if (spec_lex_accept(s) != F_NONE) { form = spec_lex_accept(s); len = i - pos; }
		}
		if (form == F_NONE) return 0;
		switch (form) {
		case F_D_CLOSE: return pos + len == n;
		case F_D_CHAR: out[(*outn)++] = t[pos]; break;
		case F_D_ESC_OTHER: out[(*outn)++] = t[pos + 1]; break;
		case F_D_NEWLINE: out[(*outn)++] = '\n'; break;
		case F_D_CONTINUATION: break;
		case F_D_LONE_BACKSLASH: out[(*outn)++] = '\\'; break;
		case F_D_OCTAL: { unsigned v = 0; for (unsigned k = 1; k < len; k++) v = v * 8 + (unsigned)(t[pos + k] - '0'); if (v > 0xFF) return 0; out[(*outn)++] = (unsigned char)v; break; }
		case F_D_HEX: { unsigned v = 0; for (unsigned k = 2; k < len; k++) v = v * 16 + (unsigned)spec_hexval(t[pos + k]); out[(*outn)++] = (unsigned char)v; break; }
		case F_D_BADNUM: return 0;
		case F_D_ENV: *substituted = 1; break;       /* replaced by an environment value: not the literal bytes */
		default:
			if (spec_named_escape(form) >= 0) { out[(*outn)++] = (unsigned char)spec_named_escape(form); break; }
			return 0;
		}
		pos += len;
	}
	return 0;      /* no closing quote */
}
static void input(void)
{
	unsigned n = nondet_uint();
	__CPROVER_assume(n <= RTN);
	for (unsigned i = 0; i < RTN; i++) { in_s[i] = nondet_uchar(); if (i >= n) in_s[i] = 0; else __CPROVER_assume(in_s[i] != 0); }
	in_s[RTN] = 0;
}
static _Bool has_env_form(const unsigned char *s)
{
	/* "${" followed somewhere by "}" */
	for (unsigned i = 0; i + 1 < RTN; i++)
		if (s[i] == '$' && s[i + 1] == '{')
			for (unsigned j = i + 2; j < RTN; j++) if (s[j] == '}') return 1;
	return 0;
}
void h_roundtrip_str(void)
{
	unsigned char printed[2 * RTN + 3], back[2 * RTN + 3]; unsigned pn, bn; int ok, subst; size_t n;
	input();
	n = strlen((const char *)in_s);
	pn = spec_print_str((const char *)in_s, printed);
	CHECK("C05", pn >= 2 && printed[0] == '"', "a printed string starts with the quote that opens a double-quoted string");
	ok = spec_decode_dq(printed + 1, pn - 1, back, &bn, &subst);
	if (has_env_form(in_s))
		KFCHECK("C05-env-substitution-in-printed-string", "C05", ok && !subst && bn == n && memcmp(back, in_s, n) == 0, "a printed string value containing ${...} reads back as the same bytes");
	else {
		CHECK("C05", ok && !subst, "the printed form of a string value is exactly one well-formed double-quoted string");
		CHECK("C05", bn == n && memcmp(back, in_s, n) == 0, "reading the printed form back yields the same bytes");
	}
	CANARY("roundtrip_str");
}
void h_roundtrip_title(void)
{
	unsigned char printed[RTN + 3], back[RTN + 3]; unsigned bn; int ok, subst; size_t n; _Bool special = 0;
	input();
	n = strlen((const char *)in_s);
	printed[0] = '"'; memcpy(printed + 1, in_s, n); printed[n + 1] = '"';          /* titles are written as "%s" (spec_print_opt) */
	ok = spec_decode_dq(printed + 1, (unsigned)n + 1, back, &bn, &subst);
	for (unsigned i = 0; i < RTN; i++) if (in_s[i] == '"' || in_s[i] == '\\') special = 1;
	if (special || has_env_form(in_s))
		KFCHECK("C05-title-printed-unescaped", "C05", ok && !subst && bn == n && memcmp(back, in_s, n) == 0, "a printed section title containing a quote, a backslash or ${...} reads back as the same bytes");
	else
		CHECK("C05", ok && !subst && bn == n && memcmp(back, in_s, n) == 0, "a printed section title reads back as the same bytes");
	CANARY("roundtrip_title");
}
