/* Units on the list / bulk / section-removal API (C09 C10 C07 C14 C18).  Same builders as store.c. */
#include "store.c"
#include "num_spec.h"

/* release exactly cnt slots (cnt is a CONSTANT at every call site) */
static void drop_n(cfg_opt_t *o, unsigned cnt, _Bool strings)
{
	for (unsigned i = 0; i < cnt; i++) {
		if (strings && o->values[i]->string) free(o->values[i]->string);
		free(o->values[i]);
	}
	if (o->values) free(o->values);
	if (o->comment) free(o->comment);
}

/* ------------------------------------------------------------------------------------------------ cfg_addval
 * contract::cfg_addval(opt): success -> one zeroed, fresh slot appended, older slots kept in order, MODIFIED set;
 * failure -> NULL, count unchanged, every older slot still in place and alive, nothing leaked */
static void b_addval(unsigned n)
{
	cfg_opt_t o; snap_t s; cfg_value_t *r;
	mk_opt(&o, CFGT_INT, n, 0);
	__CPROVER_assume(n > 0 || o.values == NULL);
	snap(&o, &s);
	r = cfg_addval(&o);
#ifdef CFGV_NO_ALLOC_FAILURE
	CHECK("C09", r != NULL, "addval succeeds (no allocation failure in this unit)");
#endif
	if (r) {
		CHECK("C09,C18", o.nvalues == n + 1 && o.values[n] == r && r->number == 0, "addval appends one zeroed slot");
		CHECK("C09", o.flags == (s.flags | CFGF_MODIFIED), "addval marks the option modified and touches no other flag");
	} else {
		CHECK("C18", o.nvalues == n && o.flags == s.flags, "addval: allocation failure keeps count and flags");
	}
	for (unsigned i = 0; i < NV; i++)
		if (i < n)
			CHECK("C09,C18", o.values[i] == s.slot[i] && o.values[i]->number == s.pay[i], "addval keeps the older values in place, on success and on failure");
	if (r) drop_n(&o, n + 1, 0); else drop_n(&o, n, 0);
}
void h_addval(void)
{
	FOR_EACH_FLAGS(FOR_EACH_COUNT(b_addval));
	CANARY("addval");
}

/* ------------------------------------------------------------------------------------------------ cfg_opt_setmulti
 * contract::cfg_opt_setmulti(cfg, opt, m, texts)  (integer option; the conversion of each text is cfg_setopt's)
 *   every text converts  -> CFG_SUCCESS: the option holds exactly the m converted values in order, MODIFIED set,
 *                           the previous slots are released, the annotation is still owned by the option
 *   some text does not   -> CFG_FAIL: values, count, order, annotation and default/modified markers are
 *                           bit-for-bit what they were (C10), nothing leaked, nothing released (C07)
 *   opt NULL or m == 0   -> CFG_FAIL
 */
extern int g_so_calls, g_so_failpos, g_so_diag; extern long g_so_value[4]; extern const char *g_so_text[4];
int in_failpos;
static void b_setmulti(unsigned n, unsigned m, int failpos)
{
	cfg_t cfg; cfg_opt_t o; snap_t s; int rc;
	char *texts[2] = { "a", "b" };
	memset(&cfg, 0, sizeof cfg); cfg.name = "root"; cfg.errfunc = cfgv_errfunc; cfg.flags = nondet_int();
	/* well-formed: a scalar holds at most one value and takes at most one; not a multi section */
	if (!((k_flags & CFGF_LIST) || n <= 1) || (k_flags & CFGF_MULTI)) return;       /* a scalar holds at most one value (it may be given several texts: the last one wins) */
	mk_opt(&o, CFGT_INT, n, 0);
	snap(&o, &s);
	g_so_calls = 0; g_so_failpos = failpos; in_failpos = failpos; g_so_diag = 0;
	g_so_value[0] = nondet_long(); g_so_value[1] = nondet_long();

	rc = cfg_opt_setmulti(&cfg, &o, m, texts);

#ifdef CFGV_NO_ALLOC_FAILURE
	CHECK("C09,C04", !(failpos < 0 || failpos >= (int)m) || rc == CFG_SUCCESS, "bulk set succeeds when every element converts (no allocation failure in this unit)");
#endif
	if (rc == CFG_SUCCESS) {
		CHECK("C09,C10,C04", failpos < 0 || failpos >= (int)m, "bulk set succeeds only when every element converts");
		CHECK("C09", o.nvalues == ((k_flags & CFGF_LIST) ? m : 1) && (o.flags & CFGF_MODIFIED) && !(o.flags & CFGF_RESET), "bulk set: exactly the new values (a scalar keeps the last), marked modified, no longer a default");
		CHECK("C09,C14,C04,C10", g_so_calls == (int)m && g_so_text[0] == texts[0] && (m < 2 || g_so_text[1] == texts[1]), "bulk set converts every text once, in order (an unconvertible element at any position is seen)");
		for (unsigned k = 0; k < 2; k++)
			if ((k_flags & CFGF_LIST) && k < m && o.nvalues == m) CHECK("C09", o.values[k]->number == g_so_value[k], "bulk set stores the converted values in order");
		if (!(k_flags & CFGF_LIST) && o.nvalues == 1) CHECK("C09", o.values[0]->number == g_so_value[m - 1], "bulk set of a scalar keeps the last converted value");
		CHECK("C07", o.comment == s.comment, "bulk set keeps the option's annotation");
		if (s.comment) CHECK("C07", __CPROVER_r_ok(s.comment, 1), "bulk set: the annotation the option points to is still alive");
	} else {
		CHECK("C10", same(&o, &s), "a refused bulk set leaves values, count, order, annotation and default/modified markers bit-for-bit as they were");
		if (s.comment) CHECK("C10,C07", __CPROVER_r_ok(s.comment, 1), "a refused bulk set does not release the annotation");
		for (unsigned i = 0; i < NV; i++) if (i < n) CHECK("C10,C07", __CPROVER_r_ok(s.slot[i], 1), "a refused bulk set does not release the old values");
	}
	if (rc == CFG_SUCCESS) { if (o.comment == s.comment && (k_flags & CFGF_LIST) && o.nvalues == m) drop_n(&o, m, 0); else if (o.comment == s.comment && !(k_flags & CFGF_LIST) && o.nvalues == 1) drop_n(&o, 1, 0); } else if (same(&o, &s)) drop_n(&o, n, 0);
}
void h_setmulti(void)
{
#define FP1(n, m) do { unsigned f_ = nondet_uint(); if (f_ == 0) b_setmulti(n, m, -1); else if (f_ == 1) b_setmulti(n, m, 0); else if (m > 1) b_setmulti(n, m, 1); } while (0)
#define FP(n, m) FOR_EACH_FLAGS(FP1(n, m))
#if defined(SHAPE_N) && defined(SHAPE_M)
	FP(SHAPE_N, SHAPE_M);
#else
	unsigned w = nondet_uint();
	if (w == 0) FP(0, 1); else if (w == 1) FP(1, 1); else if (w == 2) FP(0, 2);
	else if (w == 3) FP(1, 2); else if (w == 4) FP(2, 1); else FP(2, 2);
#endif
#undef FP
	CANARY("setmulti");
}
void h_setmulti_args(void)
{
	cfg_t cfg; cfg_opt_t o; snap_t s; char *texts[1] = { "1" };
	memset(&cfg, 0, sizeof cfg);
	k_flags = nondet_bool() ? CFGF_LIST : (FL_DATA | CFGF_RESET);
	mk_opt(&o, CFGT_INT, 1, 0);
	snap(&o, &s);
	CHECK("C09,C10", cfg_opt_setmulti(&cfg, &o, 0, texts) == CFG_FAIL && same(&o, &s), "bulk set of zero values is refused without effect");
	CHECK("C09", cfg_opt_setmulti(&cfg, NULL, 1, texts) == CFG_FAIL, "bulk set on a NULL option is refused");
	CANARY("setmulti_args");
}

/* ------------------------------------------------------------------------------------------------ cfg_addlist / cfg_setlist
 * contract::cfg_addlist(cfg, name, k, v1..vk): name unknown or not a list -> CFG_FAIL without effect;
 *    otherwise the option holds  old sequence ++ (v1..vk)  whatever it held before, DEFAULTS INCLUDED (C09)
 * contract::cfg_setlist: the option holds exactly (v1..vk)
 * cfg_getopt is a contract carrier (ghost verdict). */
static void b_list(unsigned n, _Bool add, _Bool found)
{
	cfg_t cfg; cfg_opt_t o; snap_t s; int rc;
	int a = nondet_int(), b = nondet_int();
	memset(&cfg, 0, sizeof cfg); cfg.name = "root";
	mk_opt(&o, CFGT_INT, n, 0);
	if (o.flags & CFGF_MULTI) return;
	snap(&o, &s);
	g_getopt_result = found ? &o : NULL;
	rc = add ? cfg_addlist(&cfg, "l", 2, a, b) : cfg_setlist(&cfg, "l", 2, a, b);
	if (!found || !(s.flags & CFGF_LIST)) {
		CHECK("C09,C10", rc == CFG_FAIL && same(&o, &s), "list set/append on an unknown name or a non-list option fails without effect");
	} else {
		unsigned base = add ? n : 0;
		CHECK("C09", rc == CFG_SUCCESS, "list set/append on a list option succeeds (no allocation failure in this unit)");
		CHECK("C09", o.nvalues == base + 2, "list append appends to whatever the option holds (defaults included); list set replaces");
		if (o.nvalues == base + 2) {
			CHECK("C09", o.values[base]->number == a && o.values[base + 1]->number == b, "list set/append stores the new values in order at the end");
			for (unsigned i = 0; i < NV; i++) if (add && i < n) CHECK("C09", o.values[i]->number == s.pay[i], "list append keeps the older values in order");
		}
		CHECK("C09", o.flags & CFGF_MODIFIED, "list set/append marks the option modified");
	}
}
/* the empty list of new values: set empties the option, append leaves what it holds */
static void b_list_empty(unsigned n, _Bool add)
{
	cfg_t cfg; cfg_opt_t o; snap_t s; int rc;
	memset(&cfg, 0, sizeof cfg); cfg.name = "root";
	mk_opt(&o, CFGT_INT, n, 0);
	if ((o.flags & CFGF_MULTI) || !(o.flags & CFGF_LIST)) return;
	snap(&o, &s);
	g_getopt_result = &o;
	rc = add ? cfg_addlist(&cfg, "l", 0) : cfg_setlist(&cfg, "l", 0);
	CHECK("C09", rc == CFG_SUCCESS, "list set/append of no values succeeds");
	if (add) {
		CHECK("C09", o.nvalues == n, "appending no values keeps what the option holds");
		for (unsigned i = 0; i < NV; i++) if (i < n && o.nvalues == n) CHECK("C09", o.values[i] == s.slot[i] && o.values[i]->number == s.pay[i], "appending no values keeps every value in place");
	} else
		CHECK("C09", o.nvalues == 0, "setting the empty list leaves the option without values (size 0, whatever it held)");
}
void h_addlist(void)
{
#define CALL(n) b_list(n, 1, 1)
#define CALLE(n) b_list_empty(n, 1)
	unsigned w_ = nondet_uint();
	if (w_ == 0) { k_flags = CFGF_LIST; b_list(1, 1, 0); } else if (w_ == 1) FOR_EACH_FLAGS(FOR_EACH_COUNT(CALLE)); else
	FOR_EACH_FLAGS(FOR_EACH_COUNT(CALL));
#undef CALLE
#undef CALL
	CANARY("addlist");
}
void h_setlist(void)
{
#define CALL(n) b_list(n, 0, 1)
#define CALLE(n) b_list_empty(n, 0)
	unsigned w_ = nondet_uint();
	if (w_ == 0) { k_flags = CFGF_LIST; b_list(1, 0, 0); } else if (w_ == 1) FOR_EACH_FLAGS(FOR_EACH_COUNT(CALLE)); else
	FOR_EACH_FLAGS(FOR_EACH_COUNT(CALL));
#undef CALLE
#undef CALL
	CANARY("setlist");
}

/* ------------------------------------------------------------------------------------------------ by-name setters
 * contract::cfg_setnint(cfg, name, value, index): the option's pre-set validation callback (if any) is called
 * exactly once with (cfg, opt, &value); non-zero -> CFG_FAIL without effect; it may rewrite the value, and the
 * rewritten value is what gets stored (C14).  Unknown name -> CFG_FAIL. */
static int g_v2_calls, g_v2_ret; static long g_v2_seen, g_v2_rewrite; static _Bool g_v2_do_rewrite; static cfg_opt_t *g_v2_opt; static cfg_t *g_v2_cfg;
static int cfgv_validcb2_int(cfg_t *cfg, cfg_opt_t *opt, void *value)
{
	g_v2_calls++; g_v2_cfg = cfg; g_v2_opt = opt; g_v2_seen = *(long *)value;
	if (g_v2_do_rewrite) *(long *)value = g_v2_rewrite;
	return g_v2_ret;
}
static const char *g_v2_str_seen;
static int cfgv_validcb2_str(cfg_t *cfg, cfg_opt_t *opt, void *value)
{
	g_v2_calls++; g_v2_cfg = cfg; g_v2_opt = opt; g_v2_str_seen = (const char *)value;
	return g_v2_ret;
}
static void b_setnint_byname(unsigned n)
{
	cfg_t cfg; cfg_opt_t o; snap_t s; int rc;
	long v = nondet_long();
	_Bool found = nondet_bool(), hascb = nondet_bool();
	memset(&cfg, 0, sizeof cfg); cfg.name = "root";
	mk_opt(&o, CFGT_INT, n, 0);
	if (o.flags & CFGF_RESET) return;
	if (hascb) o.validcb2 = cfgv_validcb2_int;
	in_index = nondet_uint();
	snap(&o, &s);
	g_getopt_result = found ? &o : NULL;
	g_v2_calls = 0; g_v2_ret = nondet_int(); g_v2_do_rewrite = nondet_bool(); g_v2_rewrite = nondet_long();

	rc = cfg_setnint(&cfg, "o", v, in_index);

	if (!found) CHECK("C09", rc == CFG_FAIL && g_v2_calls == 0, "by-name setter: unknown name fails");
	else {
		CHECK("C14", g_v2_calls == (hascb ? 1 : 0), "by-name setter calls the pre-set validation callback exactly once when one is registered");
		if (hascb) {
			CHECK("C14", g_v2_cfg == &cfg && g_v2_opt == &o && g_v2_seen == v, "the pre-set validation callback sees the context, the option and the value");
			CHECK("C14,C10", g_v2_ret == 0 || (rc == CFG_FAIL && same(&o, &s)), "a veto of the pre-set validation callback fails the setter without effect");
		}
#ifdef CFGV_NO_ALLOC_FAILURE
		if (!(hascb && g_v2_ret != 0) && (in_index == 0 || (in_flags & (CFGF_LIST | CFGF_MULTI)))) CHECK("C14,C09", rc == CFG_SUCCESS, "by-name setter: an accepted value with a legal index is stored (no allocation failure in this unit)");
#endif
		if (rc == CFG_SUCCESS) {
			long stored = (hascb && g_v2_do_rewrite) ? g_v2_rewrite : v;
			unsigned at = in_index < n ? in_index : n;
			CHECK("C14,C09", o.values[at]->number == stored, "the value stored is the one the validation callback left (rewritten or not)");
		}
	}
}
void h_setnint_byname(void)
{
	FOR_EACH_FLAGS(FOR_EACH_COUNT(b_setnint_byname));
	CANARY("setnint_byname");
}
void h_setnstr_byname(void)
{
	cfg_t cfg; cfg_opt_t o; snap_t s; int rc;
	char *v = nondet_bool() ? cfgv_string(2) : NULL;      /* a NULL string is a value like any other for the validator */
	_Bool hascb = nondet_bool();
	memset(&cfg, 0, sizeof cfg); cfg.name = "root";
	k_flags = nondet_bool() ? 0 : FL_DATA;
	mk_opt(&o, CFGT_STR, 1, 0);
	if (hascb) o.validcb2 = cfgv_validcb2_str;
	snap(&o, &s);
	g_getopt_result = &o;
	g_v2_calls = 0; g_v2_ret = nondet_int();
	rc = cfg_setnstr(&cfg, "o", v, 0);
	CHECK("C14", g_v2_calls == (hascb ? 1 : 0) && (!hascb || (g_v2_str_seen == v && g_v2_opt == &o && g_v2_cfg == &cfg)), "string by-name setter: the validation callback is called once with the value");
	CHECK("C14,C10", !hascb || g_v2_ret == 0 || (rc == CFG_FAIL && same(&o, &s)), "string by-name setter: a veto fails the setter without effect");
	CHECK("C14", rc != CFG_SUCCESS || (v ? (o.values[0]->string != NULL && strcmp(o.values[0]->string, v) == 0) : o.values[0]->string == NULL), "string by-name setter stores the value");
#ifdef CFGV_NO_ALLOC_FAILURE
	CHECK("C14,C09", (hascb && g_v2_ret != 0) || rc == CFG_SUCCESS, "string by-name setter: an accepted value is stored (no allocation failure in this unit)");
#endif
	CANARY("setnstr_byname");
}
static int g_v2f_calls; static double g_v2f_seen;
static int cfgv_validcb2_float(cfg_t *cfg, cfg_opt_t *opt, void *value) { (void)cfg; (void)opt; g_v2f_calls++; g_v2f_seen = *(double *)value; return g_v2_ret; }
void h_setnfloat_byname(void)
{
	cfg_t cfg; cfg_opt_t o; snap_t s; int rc;
	double v = nondet_double();
	__CPROVER_assume(!__CPROVER_isnand(v));
	memset(&cfg, 0, sizeof cfg); cfg.name = "root";
	k_flags = nondet_bool() ? 0 : FL_DATA;
	mk_opt(&o, CFGT_FLOAT, 1, 0);
	o.validcb2 = cfgv_validcb2_float;
	snap(&o, &s);
	g_getopt_result = &o;
	g_v2f_calls = 0; g_v2_ret = nondet_int();
	rc = cfg_setnfloat(&cfg, "o", v, 0);
	CHECK("C14", g_v2f_calls == 1 && g_v2f_seen == v, "float by-name setter: the validation callback is called once and sees the value");
	CHECK("C14,C10", g_v2_ret == 0 || (rc == CFG_FAIL && same(&o, &s)), "float by-name setter: a veto fails the setter without effect");
	CHECK("C14", rc != CFG_SUCCESS || o.values[0]->fpnumber == v, "float by-name setter stores the value");
#ifdef CFGV_NO_ALLOC_FAILURE
	CHECK("C14,C09", g_v2_ret != 0 || rc == CFG_SUCCESS, "float by-name setter: an accepted value is stored (no allocation failure in this unit)");
#endif
	CANARY("setnfloat_byname");
}

/* ------------------------------------------------------------------------------------------------ getters (C01 C09)
 * contract::cfg_opt_getn<type>(opt, index): an option of another type or NULL -> the zero value, errno EINVAL;
 * index < count -> exactly the stored value; otherwise the user's variable of a simple option, else the zero value.
 * Nothing is modified. */
static void b_getters(unsigned n)
{
	cfg_opt_t o; snap_t s; unsigned idx = nondet_uint(); cfg_type_t t;
	unsigned k = nondet_uint();
	t = k == 0 ? CFGT_INT : k == 1 ? CFGT_FLOAT : k == 2 ? CFGT_BOOL : k == 3 ? CFGT_STR : CFGT_PTR;
	if (k == 0) mk_opt(&o, CFGT_INT, n, 0); else if (k == 1) mk_opt(&o, CFGT_FLOAT, n, 0); else if (k == 2) mk_opt(&o, CFGT_BOOL, n, 0); else if (k == 3) mk_opt(&o, CFGT_STR, n, 0); else mk_opt(&o, CFGT_PTR, n, 0);
	snap(&o, &s);
	{
		long gi = cfg_opt_getnint(&o, idx); cfg_bool_t gb = cfg_opt_getnbool(&o, idx); char *gs = cfg_opt_getnstr(&o, idx); void *gp = cfg_opt_getnptr(&o, idx); cfg_t *gsec = cfg_opt_getnsec(&o, idx);
		_Bool in = idx < n;
		CHECK("C01,C09", t == CFGT_INT ? gi == (in ? o.values[idx]->number : 0) : gi == 0, "the integer getter returns exactly the stored value at that index (0 for other types or beyond the end)");
		CHECK("C01,C09", t == CFGT_BOOL ? gb == (in ? o.values[idx]->boolean : cfg_false) : gb == cfg_false, "the boolean getter returns exactly the stored value at that index");
		CHECK("C01,C09", t == CFGT_STR ? gs == (in ? o.values[idx]->string : NULL) : gs == NULL, "the string getter returns exactly the stored string at that index");
		CHECK("C01,C09", t == CFGT_PTR ? gp == (in ? o.values[idx]->ptr : NULL) : gp == NULL, "the pointer getter returns exactly the stored pointer at that index");
		CHECK("C09", gsec == NULL, "the section getter answers NULL for an option that is not a section");
		if (t == CFGT_FLOAT && in && !__CPROVER_isnand(o.values[idx]->fpnumber)) CHECK("C01,C09", cfg_opt_getnfloat(&o, idx) == o.values[idx]->fpnumber, "the float getter returns exactly the stored value at that index");
		CHECK("C01,C09", cfg_opt_size(&o) == n && cfg_opt_getcomment(&o) == o.comment && cfg_opt_name(&o) == o.name, "size, annotation and name getters return the stored fields");
		CHECK("C09", same(&o, &s), "getters modify nothing");
	}
	CHECK("C09", cfg_opt_getnint(NULL, 0) == 0 && cfg_opt_getnstr(NULL, 0) == NULL && cfg_opt_size(NULL) == 0 && cfg_opt_getnsec(NULL, 0) == NULL, "getters on a NULL option answer the zero value");
}
void h_getters(void)
{
	FOR_RESET_FLAGS(FOR_EACH_COUNT(b_getters));
	CANARY("getters");
}
