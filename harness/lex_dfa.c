/* L-DFA (DESIGN 4): the generated scanner tables simulate the reference automata of spec/lex_spec.h.
 * The relation cfgv_R comes from the (untrusted) witness generator; discharged here, loop-free, for EVERY pair in it
 * and EVERY byte 1..255, with the scanner's own table walker yy_get_previous_state():
 *   base      the four start conditions are related to the four reference start states
 *   closure   (q,s) in R  =>  (delta(q,c), spec_step(s,c)) in R
 *   accept    the rule the scanner accepts with in q' is one the witness pairs with the reference form of s'
 *             (none <=> none; the default ECHO rule counts as "no form" and must never be able to win: C02)
 *   jam       the scanner cannot continue  <=>  the reference cannot continue
 *   progress  every first byte is matched by some rule (no empty match can win, the scanner always advances)
 * R is then an inductive invariant of the match loop: for every input of every length the rule fired and the length
 * matched are the reference ones.  The driver loop itself (longest match, back-up) is flex's (assumed, DESIGN 6). */
#include "lex_common.h"

unsigned in_pair; unsigned char in_byte;

void h_lex_dfa(void)
{
	int q, s, q2, s2, r, f;
	char buf[2];
	for (int ctx = 0; ctx < 4; ctx++)
		CHECK("C03", cfgv_R[1 + 2 * ctx][spec_lex_start(ctx)], "base: each scanner start condition is related to the reference start state of its context");
	in_pair = nondet_uint(); in_byte = nondet_uchar();
	__CPROVER_assume(in_pair < CFGV_NPAIRS && in_byte != 0);
	q = cfgv_pair_q[in_pair]; s = cfgv_pair_s[in_pair];
	__CPROVER_assume(cfgv_R[q][s]);
	buf[0] = (char)in_byte; buf[1] = 0;
	yy_start = q; cfg_yytext = buf; yy_c_buf_p = buf + 1;
	q2 = yy_get_previous_state();
	s2 = spec_lex_step(s, in_byte);
	CHECK("C03,C02", q2 >= 0 && q2 < CFGV_NQ, "the table walker stays inside the tables");
	if (q2 >= 0 && q2 < CFGV_NQ) {
		CHECK("C03,C15,C05,C06,C01", cfgv_R[q2][s2], "closure: after any byte the scanner state and the reference state are related again");
		r = yy_accept[q2]; f = spec_lex_accept(s2);
		CHECK("C03,C15,C05,C06,C01", f == F_NONE || (r >= 1 && r < CFGV_NRULES && cfgv_rf[r][f]), "accept: where the reference has a complete token the scanner accepts with a rule paired with that form");
		CHECK("C03,C15,C05,C06,C01", f != F_NONE || r == 0 || r == CFGV_NRULES, "accept: where the reference has no complete token no rule of the scanner accepts");
		CHECK("C02,C01,C03,C05", r != CFGV_NRULES, "no reachable scanner state lets the default rule (echo to standard output) win");
		CHECK("C03,C02", (q2 == CFGV_JAM) == (s2 == LS_DEAD), "jam: the scanner stops extending a token exactly when the reference cannot continue");
		if (q == 1 || q == 3 || q == 5 || q == 7)
			CHECK("C02", r != 0, "progress: every first byte is matched by some rule (the scanner always advances)");
	}
	CANARY("lex_dfa");
}
