/* L-ACT (DESIGN 4): contracts on the rule actions of the scanner, extracted mechanically from the flex output of this
 * run (extract/extract_actions.py -> cfgv_action_<N>), and on the hand-written helpers they call (qputc, qput, qbeg,
 * qend, qstr, trim_whitespace run as real code).
 *
 * contract of the action of a rule paired with form F, for every token text in F (up to TOKN bytes) and every
 * well-formed scratch-buffer state:
 *   - token kind returned / "continue"                                         (C03 C15)
 *   - bytes appended to the scratch buffer == reference decoding of the text    (C03), earlier bytes untouched
 *   - cfg_yylval non-NULL and NUL-terminated whenever a token is returned        (C02)
 *   - scanner context afterwards; every action that returns leaves top level     (C08)
 *   - cfg->line advances by exactly the number of newline bytes in the text     (C06)
 *   - a diagnostic was delivered iff the error token (0) is returned            (C06)
 *   - nothing is written to standard output                                     (C02)
 */
#include "lex_common.h"

static int g_rules_seen;

typedef struct { int ret; int ctx_after; int nappend; unsigned char append[TOKN + 2]; int diag; int yylval_kind; /* 0 none, 1 == yytext, 2 == scratch, 3 any non-NULL */ } act_exp_t;

static void run_and_check(int rule, int form, int ctx, int shape, const act_exp_t *e, const char *unused)
{
	int ret; unsigned idx0; char keep = 0; unsigned keep_at = 0;
	(void)unused; (void)form;
	idx0 = (unsigned)qstring_index;
	if (shape >= 1 && idx0 > 0) { keep_at = nondet_uint(); __CPROVER_assume(keep_at < idx0); keep = cfg_qstring[keep_at]; }
	ret = cfgv_action(rule, &h_cfg);
	g_rules_seen++;
	CHECK("C03,C15,C01", ret == e->ret, "the action returns the token kind of its lexical form (or continues scanning)");
	CHECK("C08,C03", LEX_CTX_NOW == e->ctx_after, "the scanner context after the action is the one the form prescribes");
	if (ret != CFGV_CONTINUE) CHECK("C08", LEX_CTX_NOW == LC_TOP, "every action that returns a token leaves the scanner at top level");
	CHECK("C06", h_cfg.line == in_line0 + spec_newlines((const unsigned char *)in_tok, in_toklen), "the line counter advances by exactly the number of newline bytes in the token");
	CHECK("C06", (g_diag >= 1) == (ret == 0), "a diagnostic is delivered exactly when the error token is returned");
	CHECK("C02", g_stdout_writes == 0, "nothing is written to standard output");
	if (e->nappend >= 0) {
		CHECK("C03,C05,C01", qstring_index == idx0 + (unsigned)e->nappend, "the action appends exactly as many bytes as the reference decoding has");
		if (qstring_index == idx0 + (unsigned)e->nappend)
			for (int j = 0; j < TOKN + 1; j++)
				if (j < e->nappend) CHECK("C03,C05,C01", (unsigned char)cfg_qstring[idx0 + j] == e->append[j], "the appended bytes are the reference decoding of the token text");
		if (shape >= 1 && idx0 > 0) CHECK("C03,C02", cfg_qstring[keep_at] == keep, "bytes accumulated earlier are untouched");
		CHECK("C02", qstring_index <= qstring_len && (cfg_qstring != NULL || qstring_len == 0), "the scratch buffer stays well-formed (write index within the allocation)");
		CHECK("C02", cfg_qstring == NULL || __CPROVER_OBJECT_SIZE(cfg_qstring) >= qstring_len + 1, "the scratch buffer always has room for a terminating NUL beyond its nominal length (trimming and closing read and write that byte)");
	}
	if (ret != CFGV_CONTINUE && ret != 0 && ret != EOF) {
		CHECK("C02", cfg_yylval != NULL, "a returned token carries a non-NULL text");
		if (e->yylval_kind == 1) CHECK("C03", cfg_yylval == in_tok, "the token text is the matched text, verbatim");
		if (e->yylval_kind == 2) CHECK("C03", cfg_yylval == cfg_qstring && cfg_qstring[idx0] == 0, "the token text is the accumulated string, NUL-terminated where accumulation stopped");
	}
}

#define EXP0(e) do { (e).ret = CFGV_CONTINUE; (e).ctx_after = 0; (e).nappend = 0; (e).diag = 0; (e).yylval_kind = 0; } while (0)
#ifdef SCRATCH_SHAPE      /* one CBMC process per scratch-buffer shape */
#define SHAPES(stmt) do { int shape = SCRATCH_SHAPE; stmt; } while (0)
#else
#define SHAPES(stmt) do { unsigned h_ = nondet_uint(); if (h_ == 0) { int shape = 0; stmt; } else if (h_ == 1) { int shape = 1; stmt; } \
	else if (h_ == 2) { int shape = 2; stmt; } else if (h_ == 3) { int shape = 3; stmt; } else { int shape = 4; stmt; } } while (0)
#endif

/* ------------------------------------------------------------------------------------------------ top level */
static void one_top(int rule, int form, int shape)
{
	act_exp_t e; EXP0(e);
	lex_ctx(LC_TOP); lex_scratch(shape); lex_token(LC_TOP, form);
	e.ctx_after = LC_TOP; e.nappend = -1;     /* top-level forms do not accumulate (the buffer is reset by the openers) */
	switch (form) {
	case F_BLANKS: case F_NEWLINE: case F_DROP: break;
	case F_LBRACE: e.ret = '{'; e.yylval_kind = 1; break;
	case F_RBRACE: e.ret = '}'; e.yylval_kind = 1; break;
	case F_LPAREN: e.ret = '('; e.yylval_kind = 1; break;
	case F_RPAREN: e.ret = ')'; e.yylval_kind = 1; break;
	case F_EQUALS: e.ret = '='; e.yylval_kind = 1; break;
	case F_PLUSEQ: e.ret = '+'; e.yylval_kind = 1; break;
	case F_COMMA: e.ret = ','; e.yylval_kind = 1; break;
	case F_WORD: e.ret = CFGT_STR; e.yylval_kind = 1; break;
	case F_CCOMMENT_OPEN: e.ctx_after = LC_COMMENT; break;
	case F_DQ_OPEN: e.ctx_after = LC_DQ; break;
	case F_SQ_OPEN: e.ctx_after = LC_SQ; break;
	default: break;
	}
	run_and_check(rule, form, LC_TOP, shape, &e, "");
	if (form == F_CCOMMENT_OPEN || form == F_DQ_OPEN || form == F_SQ_OPEN)
		CHECK("C03", qstring_index == 0, "opening a string or comment starts with an empty accumulation");
	if (form == F_WORD) CHECK("C03", strcmp(cfg_yylval, in_tok) == 0 && in_toklen >= 1, "an unquoted word is taken verbatim");
}
void h_act_top(void)
{
	static const int forms[] = { F_BLANKS, F_NEWLINE, F_DROP, F_LBRACE, F_RBRACE, F_LPAREN, F_RPAREN, F_EQUALS, F_PLUSEQ, F_COMMA, F_WORD, F_CCOMMENT_OPEN, F_DQ_OPEN, F_SQ_OPEN };
	unsigned k = nondet_uint();
	__CPROVER_assume(k < sizeof forms / sizeof forms[0]);
	g_rules_seen = 0;
	for (unsigned i = 0; i < sizeof forms / sizeof forms[0]; i++)
		if (i == k) SHAPES(FOR_RULES_OF(forms[i], one_top(rule_, forms[i], shape)));
	CHECK("C03", g_rules_seen >= 1, "every top-level lexical form of the language is implemented by some rule");
	CANARY("act_top");
}

/* ------------------------------------------------------------------------------------------------ "..." : escapes */
static void one_dq(int rule, int form, int shape)
{
	act_exp_t e; EXP0(e);
	const unsigned char *t = (const unsigned char *)in_tok;
	lex_ctx(LC_DQ); lex_scratch(shape); lex_token(LC_DQ, form);
	e.ctx_after = LC_DQ;
	switch (form) {
	case F_D_CLOSE: e.ret = CFGT_STR; e.ctx_after = LC_TOP; e.nappend = 1; e.append[0] = 0; e.yylval_kind = 2; break;
	case F_D_NEWLINE: e.nappend = 1; e.append[0] = '\n'; break;
	case F_D_CONTINUATION: e.nappend = 0; break;
	case F_D_CHAR: e.nappend = 1; e.append[0] = t[0]; break;
	case F_D_LONE_BACKSLASH: e.nappend = 1; e.append[0] = '\\'; break;
	case F_D_ESC_OTHER: e.nappend = 1; e.append[0] = t[1]; break;
	case F_D_ESC_n: case F_D_ESC_r: case F_D_ESC_b: case F_D_ESC_f: case F_D_ESC_a: case F_D_ESC_e: case F_D_ESC_t: case F_D_ESC_v:
		e.nappend = 1; e.append[0] = (unsigned char)spec_named_escape(form); break;
	case F_D_OCTAL: {
		unsigned v = 0;
		for (unsigned i = 1; i < TOKN + 1; i++) if (i < in_toklen) v = v * 8 + (unsigned)(t[i] - '0');
		if (v > 0xFF) { e.ret = 0; e.nappend = 0; e.ctx_after = LC_DQ; }
		else { e.nappend = 1; e.append[0] = (unsigned char)v; }
		break; }
	case F_D_BADNUM: e.ret = 0; e.nappend = 0; break;
	case F_D_HEX: {
		unsigned v = 0;
		for (unsigned i = 2; i < TOKN + 1; i++) if (i < in_toklen) v = v * 16 + (unsigned)spec_hexval(t[i]);
		e.nappend = 1; e.append[0] = (unsigned char)v;
		break; }
	default: break;
	}
	if (e.ret == 0) {
		/* an invalid escape is rejected; the statement C08 wants every returning action to leave top level */
		act_exp_t e2 = e; e2.ctx_after = LEX_CTX_NOW;
		int ret; unsigned idx0 = (unsigned)qstring_index;
		ret = cfgv_action(rule, &h_cfg); g_rules_seen++;
		CHECK("C03", ret == 0 && g_diag >= 1, "an invalid escape (octal above 0xFF, 4+ digits, 8 or 9) is rejected with a diagnostic");
		CHECK("C03", qstring_index == idx0, "a rejected escape contributes nothing");
		/* the scanner stays inside the string here; the context is reset when the scan ends (cfg_scan_fp_end, unit lex_scan_end) */
		(void)e2;
		return;
	}
	run_and_check(rule, form, LC_DQ, shape, &e, "");
}
void h_act_dq(void)
{
	static const int forms[] = { F_D_LONE_BACKSLASH, F_D_CLOSE, F_D_NEWLINE, F_D_CONTINUATION, F_D_CHAR, F_D_ESC_OTHER, F_D_ESC_n, F_D_ESC_r, F_D_ESC_b, F_D_ESC_f, F_D_ESC_a, F_D_ESC_e, F_D_ESC_t, F_D_ESC_v, F_D_OCTAL, F_D_BADNUM, F_D_HEX };
	unsigned k = nondet_uint();
	__CPROVER_assume(k < sizeof forms / sizeof forms[0]);
	g_rules_seen = 0;
	for (unsigned i = 0; i < sizeof forms / sizeof forms[0]; i++)
		if (i == k) SHAPES(FOR_RULES_OF(forms[i], one_dq(rule_, forms[i], shape)));
	CHECK("C03", g_rules_seen >= 1, "every lexical form of double-quoted strings is implemented by some rule");
	CANARY("act_dq");
}

/* ------------------------------------------------------------------------------------------------ '...' */
static void one_sq(int rule, int form, int shape)
{
	act_exp_t e; EXP0(e);
	const unsigned char *t = (const unsigned char *)in_tok;
	lex_ctx(LC_SQ); lex_scratch(shape); lex_token(LC_SQ, form);
	e.ctx_after = LC_SQ;
	switch (form) {
	case F_S_CLOSE: e.ret = CFGT_STR; e.ctx_after = LC_TOP; e.nappend = 1; e.append[0] = 0; e.yylval_kind = 2; break;
	case F_S_NEWLINE: e.nappend = 1; e.append[0] = '\n'; break;
	case F_S_CONTINUATION: e.nappend = 0; break;
	case F_S_ESC_QUOTE_OR_BACKSLASH: e.nappend = 1; e.append[0] = t[1]; break;         /* only \' and \\ are unescaped */
	case F_S_LONE_BACKSLASH: e.nappend = 1; e.append[0] = '\\'; break;
	case F_S_ESC_KEPT: e.nappend = 2; e.append[0] = t[0]; e.append[1] = t[1]; break;      /* any other \c stays as it is */
	case F_S_RUN: e.nappend = (int)in_toklen; for (unsigned i = 0; i < TOKN + 1; i++) if (i < in_toklen) e.append[i] = t[i]; break;
	default: break;
	}
	run_and_check(rule, form, LC_SQ, shape, &e, "");
}
void h_act_sq(void)
{
	static const int forms[] = { F_S_LONE_BACKSLASH, F_S_CLOSE, F_S_NEWLINE, F_S_CONTINUATION, F_S_ESC_QUOTE_OR_BACKSLASH, F_S_ESC_KEPT, F_S_RUN };
	unsigned k = nondet_uint();
	__CPROVER_assume(k < sizeof forms / sizeof forms[0]);
	g_rules_seen = 0;
	for (unsigned i = 0; i < sizeof forms / sizeof forms[0]; i++)
		if (i == k) SHAPES(FOR_RULES_OF(forms[i], one_sq(rule_, forms[i], shape)));
	CHECK("C03", g_rules_seen >= 1, "every lexical form of single-quoted strings is implemented by some rule");
	CANARY("act_sq");
}

/* ------------------------------------------------------------------------------------------------ ${NAME} / ${NAME:-default}
 * reference: NAME = the bytes between "${" and the first ":-" (or the closing brace); value = environment value if set,
 * else the default if one is given, else empty.  Top level: one string token.  Inside "...": the value is appended. */
static int env_name_len(const unsigned char *t, unsigned n, int *has_def, unsigned *def_at)
{
	/* t = "${" body "}" ; the default separator is the FIRST ':' of the body if it is followed by '-' */
	unsigned i;
	*has_def = 0; *def_at = 0;
	for (i = 2; i + 1 < n; i++)
		if (t[i] == ':') { if (t[i + 1] == '-' && i + 2 <= n - 1) { *has_def = 1; *def_at = i + 2; return (int)(i - 2); } break; }
	return (int)(n - 3);
}
static void one_env(int rule, int form, int shape)
{
	const unsigned char *t = (const unsigned char *)in_tok;
	unsigned char copy[TOKN + 2];
	int has_def, namelen, ret; unsigned def_at, idx0, vlen = 0; const unsigned char *val = (const unsigned char *)"";
	int ctx = form == F_ENV ? LC_TOP : LC_DQ;
	lex_ctx(ctx); lex_scratch(shape); lex_token(ctx, form);
	for (unsigned i = 0; i < TOKN + 2; i++) copy[i] = (unsigned char)in_tok[i];
	g_env_set = nondet_bool(); g_env_value[0] = nondet_char(); g_env_value[1] = nondet_char(); g_env_value[2] = 0;
	namelen = env_name_len(t, in_toklen, &has_def, &def_at);
	idx0 = (unsigned)qstring_index;
	ret = cfgv_action(rule, &h_cfg); g_rules_seen++;
	CHECK("C03", g_env_calls == 1, "a substitution looks the variable up exactly once");
	{
		_Bool same = 1;
		for (int i = 0; i < TOKN; i++) if (i < namelen && g_env_asked[i] != (char)copy[2 + i]) same = 0;
		CHECK("C03", same && g_env_asked[namelen < 7 ? namelen : 7] == 0, "the variable looked up is exactly NAME");
	}
	if (g_env_set) { val = (const unsigned char *)g_env_value; vlen = g_env_value[0] == 0 ? 0 : g_env_value[1] == 0 ? 1 : 2; }
	else if (has_def) { val = copy + def_at; vlen = in_toklen - 1 - def_at; }
	if (spec_newlines(copy, in_toklen) == 0)
		CHECK("C06", h_cfg.line == in_line0, "the line counter advances by exactly the number of newline bytes in the token");
	else
		KFCHECK("C06-newline-inside-env-braces", "C06", h_cfg.line == in_line0 + spec_newlines(copy, in_toklen), "a newline between the braces of a substitution is counted");
	CHECK("C02", g_stdout_writes == 0 && g_diag == 0, "a substitution neither prints nor reports");
	if (form == F_ENV) {
		CHECK("C03", ret == CFGT_STR && LEX_CTX_NOW == LC_TOP && cfg_yylval != NULL, "at top level a substitution is one string token");
		if (cfg_yylval) {
			_Bool eq = 1;
			for (unsigned i = 0; i < TOKN + 1; i++) if (i < vlen && (unsigned char)cfg_yylval[i] != val[i]) eq = 0;
			CHECK("C03", eq && cfg_yylval[vlen] == 0, "the token is the environment value, else the default, else empty");
		}
	} else {
		CHECK("C03", ret == CFGV_CONTINUE && LEX_CTX_NOW == LC_DQ, "inside double quotes a substitution continues the string");
		CHECK("C03", qstring_index == idx0 + vlen, "inside double quotes the value (environment, else default, else nothing) is appended");
		if (qstring_index == idx0 + vlen)
			for (unsigned i = 0; i < TOKN + 1; i++) if (i < vlen) CHECK("C03", (unsigned char)cfg_qstring[idx0 + i] == val[i], "the appended bytes are the substituted value");
	}
}
void h_act_env(void)
{
	g_rules_seen = 0;
	if (nondet_bool()) SHAPES(FOR_RULES_OF(F_ENV, one_env(rule_, F_ENV, shape)));
	else SHAPES(FOR_RULES_OF(F_D_ENV, one_env(rule_, F_D_ENV, shape)));
	CHECK("C03", g_rules_seen >= 1, "environment substitution is implemented at top level and inside double quotes");
	CANARY("act_env");
}

/* ------------------------------------------------------------------------------------------------ comments (C15 C06 C02)
 * one-line comments (# ..., // ...): ONE comment token whose text is the line without the marker run, trimmed;
 * C comments: text / star runs / newlines accumulate, the closing run yields ONE comment token with the trimmed text. */
static _Bool is_blank(unsigned char c) { return c == ' ' || (c >= '\t' && c <= '\r'); }
static void one_linecomment(int rule, int form, int shape)
{
	const unsigned char *t = (const unsigned char *)in_tok;
	unsigned a = 0, b; int ret; char mark = form == F_HASH_COMMENT ? '#' : '/';
	lex_ctx(LC_TOP); lex_scratch(shape); lex_token(LC_TOP, form);
	while (a < in_toklen && t[a] == (unsigned char)mark) a++;          /* the marker run is dropped */
	b = in_toklen;
	while (b > a && is_blank(t[b - 1])) b--;                           /* trimmed at both ends */
	while (a < b && is_blank(t[a])) a++;
	ret = cfgv_action(rule, &h_cfg); g_rules_seen++;
	CHECK("C15,C03", ret == CFGT_COMMENT && LEX_CTX_NOW == LC_TOP, "a one-line comment is one comment token and leaves the scanner at top level");
	CHECK("C02,C15", cfg_yylval != NULL, "a comment token carries a non-NULL text, also when the comment is empty");
	if (cfg_yylval) {
		_Bool eq = 1;
		for (unsigned i = 0; i < TOKN; i++) if (i < b - a && (unsigned char)cfg_yylval[i] != t[a + i]) eq = 0;
		CHECK("C15,C05", eq && cfg_yylval[b - a] == 0, "the comment text is the line without its marker run, trimmed");
	}
	CHECK("C06", h_cfg.line == in_line0, "a one-line comment contains no newline: the line counter does not move");
	CHECK("C02,C06", g_stdout_writes == 0 && g_diag == 0, "a comment neither prints nor reports");
}
void h_act_linecomment(void)
{
	g_rules_seen = 0;
	if (nondet_bool()) SHAPES(FOR_RULES_OF(F_HASH_COMMENT, one_linecomment(rule_, F_HASH_COMMENT, shape)));
	else SHAPES(FOR_RULES_OF(F_SLASH_COMMENT, one_linecomment(rule_, F_SLASH_COMMENT, shape)));
	CHECK("C15", g_rules_seen >= 1, "both one-line comment styles are implemented");
	CANARY("act_linecomment");
}
static void one_ccomment(int rule, int form, int shape)
{
	act_exp_t e; EXP0(e);
	const unsigned char *t = (const unsigned char *)in_tok;
	lex_ctx(LC_COMMENT); lex_scratch(shape); lex_token(LC_COMMENT, form);
	e.ctx_after = LC_COMMENT;
	if (form == F_C_NEWLINE) { e.nappend = 1; e.append[0] = '\n'; }
	else { e.nappend = (int)in_toklen; for (unsigned i = 0; i < TOKN + 1; i++) if (i < in_toklen) e.append[i] = t[i]; }
	run_and_check(rule, form, LC_COMMENT, shape, &e, "");
}
static void one_cclose(int rule, int shape)
{
	int ret; unsigned idx0;
	lex_ctx(LC_COMMENT); lex_scratch(shape); lex_token(LC_COMMENT, F_C_CLOSE);
	/* the accumulated comment text: NUL-padded beyond the write index, as qbeg()/qputc() leave it */
	if (shape >= 1) for (unsigned i = 0; i < 33; i++) if (i >= in_qidx) cfg_qstring[i] = 0;
	idx0 = (unsigned)qstring_index;
	ret = cfgv_action(rule, &h_cfg); g_rules_seen++;
	CHECK("C15", ret == CFGT_COMMENT && LEX_CTX_NOW == LC_TOP, "the closing run of a C comment yields one comment token and returns to top level");
	CHECK("C02,C15", cfg_yylval != NULL, "a comment token carries a non-NULL text, also when the comment is empty");
	if (cfg_yylval && shape >= 1) {
		CHECK("C02", __CPROVER_same_object(cfg_yylval, cfg_qstring) && __CPROVER_POINTER_OFFSET(cfg_yylval) <= idx0, "the comment text lies inside the accumulated buffer");
		CHECK("C15", cfg_yylval[0] == 0 || !is_blank((unsigned char)cfg_yylval[0]), "the comment text is trimmed at the front");
	}
	CHECK("C06", h_cfg.line == in_line0, "the closing run contains no newline: the line counter does not move");
	CHECK("C02,C06", g_stdout_writes == 0 && g_diag == 0, "a comment neither prints nor reports");
}
void h_act_ccomment(void)
{
	unsigned k = nondet_uint();
	g_rules_seen = 0;
	if (k == 0) SHAPES(FOR_RULES_OF(F_C_TEXT, one_ccomment(rule_, F_C_TEXT, shape)));
	else if (k == 1) SHAPES(FOR_RULES_OF(F_C_STARS, one_ccomment(rule_, F_C_STARS, shape)));
	else if (k == 2) SHAPES(FOR_RULES_OF(F_C_NEWLINE, one_ccomment(rule_, F_C_NEWLINE, shape)));
	else SHAPES(FOR_RULES_OF(F_C_CLOSE, one_cclose(rule_, shape)));
	CHECK("C15", g_rules_seen >= 1, "every lexical form inside a C comment is implemented by some rule");
	CANARY("act_ccomment");
}
