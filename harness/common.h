/* harness/common.h - shared by the proof units of confuse.c (included after the real source) */
#ifndef CFGV_COMMON_H
#define CFGV_COMMON_H

/* gettext: assumed contract "returns a format with the same conversions"; identity here */
char *dgettext(const char *d, const char *m) { (void)d; return (char *)m; }
char *bindtextdomain(const char *d, const char *dir) { (void)d; (void)dir; return (char *)"x"; }

#ifndef CFGV_OWN_PI_ENTRY
/* default text of the CFG_VERIF_PI_ENTRY hook for units that are not about the parser loop: no effect */
int cfgv_pi_entry(cfg_t *cfg, int level, int force_state, cfg_opt_t *force_opt, int *state, char **comment, char **opttitle,
		  cfg_opt_t **opt, cfg_value_t **val, cfg_opt_t *funcopt, int *ignore, int *num_values, int *result)
{
	(void)cfg; (void)level; (void)force_state; (void)force_opt; (void)state; (void)comment; (void)opttitle; (void)opt; (void)val;
	(void)funcopt; (void)ignore; (void)num_values; (void)result;
	return 0;
}
#endif

/* diagnostic monitor: installed as cfg->errfunc, so the real cfg_error() runs */
static int g_diag;          /* number of diagnostics delivered */
static cfg_t *g_diag_cfg;   /* context handed to the error function last */
static int g_diag_line;
static void cfgv_errfunc(cfg_t *cfg, const char *fmt, va_list ap)
{
	(void)fmt; (void)ap;
	if (g_diag < 1000) g_diag++;
	g_diag_cfg = cfg;
	g_diag_line = cfg ? cfg->line : -1;
}

/* allocation in the harness itself never fails.  Symbolic allocation sizes are very expensive in CBMC
 * (DESIGN 2.2); cfgv_alloc_sw splits a small symbolic size into constant-size cases. */
static void *cfgv_alloc(size_t n)
{
	void *p = malloc(n);
	__CPROVER_assume(p != NULL);
	return p;
}
static void *cfgv_alloc_sw(size_t n)
{
	__CPROVER_assume(n >= 1 && n <= 4);
	if (n == 1) return cfgv_alloc(1);
	if (n == 2) return cfgv_alloc(2);
	if (n == 3) return cfgv_alloc(3);
	return cfgv_alloc(4);
}
static void *cfgv_alloc_ptrs(size_t n)
{
	__CPROVER_assume(n >= 1 && n <= 4);
	if (n == 1) return cfgv_alloc(1 * sizeof(void *));
	if (n == 2) return cfgv_alloc(2 * sizeof(void *));
	if (n == 3) return cfgv_alloc(3 * sizeof(void *));
	return cfgv_alloc(4 * sizeof(void *));
}

/* an owned NUL-terminated string of at most CFGV_STRN bytes with arbitrary content: a fixed-size block whose
 * last byte is NUL (the length is decided by the content, not by the allocation size) */
#ifndef CFGV_STRN
#define CFGV_STRN 2
#endif
static char *cfgv_string(size_t max)
{
	char *s = cfgv_alloc(CFGV_STRN + 1);
	(void)max;
	for (size_t i = 0; i < CFGV_STRN; i++)
		s[i] = nondet_char();
	s[CFGV_STRN] = 0;
	return s;
}
#endif
