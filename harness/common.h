/* harness/common.h - shared by the proof units of confuse.c (included after the real source) */
#ifndef CFGV_COMMON_H
#define CFGV_COMMON_H

/* gettext: assumed contract "returns a format with the same conversions"; identity here */
char *dgettext(const char *d, const char *m) { (void)d; return (char *)m; }
char *bindtextdomain(const char *d, const char *dir) { (void)d; (void)dir; return (char *)"x"; }

/* diagnostic monitor: installed as cfg->errfunc, so the real cfg_error() runs */
static int g_diag;          /* number of diagnostics delivered */
static cfg_t *g_diag_cfg;   /* context handed to the error function last */
static int g_diag_line;
static void cfgv_errfunc(cfg_t *cfg, const char *fmt, va_list ap)
{
	(void)fmt; (void)ap;
	if (g_diag < 1000) g_diag++;
	g_diag_cfg = cfg;
	g_diag_line = cfg ? cfg->line : -1;
}

/* allocation in the harness itself never fails */
static void *cfgv_alloc(size_t n)
{
	void *p = malloc(n);
	__CPROVER_assume(p != NULL);
	return p;
}

/* a NUL-terminated string of at most max bytes with arbitrary content (bytes 1..255) */
static char *cfgv_string(size_t max)
{
	size_t n = nondet_size();
	char *s;
	__CPROVER_assume(n <= max);
	s = cfgv_alloc(n + 1);
	s[n] = 0;
	for (size_t i = 0; i < n; i++)
		__CPROVER_assume(s[i] != 0);
	return s;
}
#endif
