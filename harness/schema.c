/* Units on the schema copy and the context life cycle: cfg_dupopt_array, cfg_free_opt_array, cfg_init, cfg_free,
 * cfg_addopt, cfg_getopt_leaf (C16 C18 C07 C12 C01 C08). */
#include "ref_strings.h"
#include "common.h"
#include "ghost.h"

#ifndef NOPT
#define NOPT 2
#endif
/* reference memcpy for the one use in cfg_dupopt_array (an array of option structs): copied struct-wise, so that the
 * fields stay typed for symbolic execution (CBMC's byte-wise model makes every later field read a byte extraction and
 * the recursion over sub-options is then explored blindly).  Contract: C11 7.24.2.1, non-overlapping objects. */
void *memcpy(void *dest, const void *src, size_t n)
{
	if (n % sizeof(cfg_opt_t) == 0) {
		cfg_opt_t *d = dest; const cfg_opt_t *s = src;
		for (size_t i = 0; i < n / sizeof(cfg_opt_t); i++) d[i] = s[i];
	} else {
		unsigned char *d = dest; const unsigned char *s = src;
		for (size_t i = 0; i < n; i++) d[i] = s[i];
	}
	return dest;
}
static char *str1(void) { char *s = cfgv_alloc(2); s[0] = nondet_char(); __CPROVER_assume(s[0] != 0); s[1] = 0; return s; }
static cfg_opt_t g_nested[1];      /* a declared sub-option array (terminator only) */

/* a caller-owned declaration array of n options; every optional string present or absent */
static int k_present;    /* constant per case: 0 no optional string, 1 all of them, 2 alternating, 3 only the first option's default string */
#define PRESENT(i, j) (k_present == 1 || (k_present == 2 && (((i) + (j)) & 1)) || (k_present == 3 && (i) == 0 && (j) == 1))
static cfg_opt_t *mk_decl(unsigned n, _Bool with_nested)
{
	cfg_opt_t *a = cfgv_alloc((n + 1) * sizeof(cfg_opt_t));
	memset(a, 0, (n + 1) * sizeof(cfg_opt_t));
	for (unsigned i = 0; i < n; i++) {
		a[i].name = str1();
		a[i].type = (cfg_type_t)(1 + (nondet_uint() % 7));
		a[i].flags = nondet_int();
		a[i].def.number = nondet_long();
		a[i].def.parsed = PRESENT(i, 0) ? str1() : NULL;
		a[i].def.string = PRESENT(i, 1) ? str1() : NULL;
		a[i].comment = PRESENT(i, 2) ? str1() : NULL;
		a[i].subopts = (with_nested && PRESENT(i, 3)) ? g_nested : NULL;
		a[i].func = (cfg_func_t)nondet_ptr(); a[i].parsecb = (cfg_callback_t)nondet_ptr(); a[i].validcb = (cfg_validate_callback_t)nondet_ptr();
		a[i].pf = (cfg_print_func_t)nondet_ptr(); a[i].freecb = (cfg_free_func_t)nondet_ptr();
	}
	return a;
}
static void drop_decl(cfg_opt_t *a, unsigned n)
{
	for (unsigned i = 0; i < n; i++) {
		free((void *)a[i].name);
		if (a[i].def.parsed) free(a[i].def.parsed);
		if (a[i].def.string) free((void *)a[i].def.string);
		if (a[i].comment) free(a[i].comment);
	}
	free(a);
}

/* contract::cfg_dupopt_array(opts)
 *   result NULL (allocation failure): nothing leaked, the source and everything it owns untouched and alive (C18)
 *   else: a FRESH array, terminator in place; per option every owned string is NULL iff the source's is and otherwise a
 *         fresh block with equal bytes (never the source's pointer); sub-option arrays are copied, not shared;
 *         scalars, flags and callbacks are copied; the source is not modified (C16) */
static void b_dupopt(unsigned n)
{
	cfg_opt_t *src = mk_decl(n, 1), *dup;
	cfg_opt_t snap[NOPT + 1];
	memset(g_nested, 0, sizeof g_nested);
	for (unsigned i = 0; i < NOPT + 1; i++) if (i <= n) snap[i] = src[i];
	dup = cfg_dupopt_array(src);
	for (unsigned i = 0; i < NOPT + 1; i++)
		if (i <= n) CHECK("C16,C18", snap[i].name == src[i].name && snap[i].comment == src[i].comment && snap[i].def.parsed == src[i].def.parsed && snap[i].def.string == src[i].def.string
				  && snap[i].subopts == src[i].subopts && snap[i].flags == src[i].flags && snap[i].type == src[i].type && snap[i].values == src[i].values,
				  "copying a declaration array does not modify the caller's array");
	for (unsigned i = 0; i < NOPT; i++)
		if (i < n) {
			CHECK("C18,C16", __CPROVER_r_ok(src[i].name, 2), "the caller's strings stay alive, also when the copy fails half-way");
			if (src[i].def.string) CHECK("C18,C16", __CPROVER_r_ok(src[i].def.string, 2), "the caller's default strings stay alive, also when the copy fails half-way");
			if (src[i].def.parsed) CHECK("C18,C16", __CPROVER_r_ok(src[i].def.parsed, 2), "the caller's parsed defaults stay alive, also when the copy fails half-way");
			if (src[i].comment) CHECK("C18,C16", __CPROVER_r_ok(src[i].comment, 2), "the caller's comments stay alive, also when the copy fails half-way");
		}
#ifdef CFGV_NO_ALLOC_FAILURE
	CHECK("C16", dup != NULL, "copying a declaration array succeeds (no allocation failure in this unit)");
#endif
	if (dup) {
		CHECK("C16", dup != src && dup[n].name == NULL, "the copy is a new array with its terminator");
		for (unsigned i = 0; i < NOPT; i++)
			if (i < n) {
				CHECK("C16", dup[i].name != NULL && dup[i].name != src[i].name && dup[i].name[0] == src[i].name[0] && dup[i].name[1] == 0, "option names are private copies");
				CHECK("C16", src[i].def.string ? (dup[i].def.string != NULL && dup[i].def.string != src[i].def.string && dup[i].def.string[0] == src[i].def.string[0]) : dup[i].def.string == NULL, "default strings are private copies");
				CHECK("C16", src[i].def.parsed ? (dup[i].def.parsed != NULL && dup[i].def.parsed != src[i].def.parsed && dup[i].def.parsed[0] == src[i].def.parsed[0]) : dup[i].def.parsed == NULL, "parsed defaults are private copies");
				CHECK("C16", src[i].comment ? (dup[i].comment != NULL && dup[i].comment != src[i].comment && dup[i].comment[0] == src[i].comment[0]) : dup[i].comment == NULL, "annotations are private copies");
				CHECK("C16", src[i].subopts ? (dup[i].subopts != NULL && dup[i].subopts != src[i].subopts) : dup[i].subopts == NULL, "declared sub-options are copied, never shared");
				CHECK("C16,C01", dup[i].type == src[i].type && dup[i].flags == src[i].flags && dup[i].def.number == src[i].def.number && dup[i].func == src[i].func && dup[i].parsecb == src[i].parsecb
				      && dup[i].validcb == src[i].validcb && dup[i].pf == src[i].pf && dup[i].freecb == src[i].freecb && dup[i].nvalues == 0 && dup[i].values == NULL, "type, flags, numeric default and callbacks are carried over");
			}
		cfg_free_opt_array(dup);      /* contract::cfg_free_opt_array: releases exactly what the copy owns (leak / double free: CBMC) */
	}
	drop_decl(src, n);
}
void h_dupopt(void)
{
#ifdef SHAPE_N
	k_present = SHAPE_P; b_dupopt(SHAPE_N);
#else
	unsigned k = nondet_uint();
	k_present = 1;
	if (k == 0) b_dupopt(0); else if (k == 1) b_dupopt(1); else if (NOPT >= 2) b_dupopt(2);
#endif
	CANARY("dupopt");
}

/* contract::cfg_init(opts, flags): NULL on allocation failure (nothing leaked); else a root context named "root" whose
 * option array is the private copy, flags set BEFORE the defaults are materialised (sections created there inherit
 * them, C12), no file name, line 0, no error function */
extern int g_initdef_calls; extern cfg_t *g_initdef_arg; extern int g_dup_calls; extern cfg_opt_t *g_dup_arg, *g_dup_result;
int g_initdef_flags_seen;     /* written by the carrier (see carriers/cfg_init_defaults.c) */
void h_cfg_init(void)
{
	cfg_opt_t decl[1]; cfg_t *cfg; int flags = nondet_int();
	memset(decl, 0, sizeof decl);
	g_initdef_calls = 0; g_dup_calls = 0;
	cfg = cfg_init(decl, flags);
#ifdef CFGV_NO_ALLOC_FAILURE
	CHECK("C01,C16", cfg != NULL, "creating a context succeeds (no allocation failure in this unit)");
#endif
	if (cfg) {
		CHECK("C16", g_dup_calls == 1 && g_dup_arg == decl && cfg->opts == g_dup_result && cfg->opts != decl, "a context works on a private copy of the declarations");
		CHECK("C01,C12", g_initdef_calls == 1 && g_initdef_arg == cfg && g_initdef_flags_seen == flags, "the context flags are in place before the defaults (and the single sections they create) are materialised");
		CHECK("C01", cfg->flags == flags && cfg->filename == NULL && cfg->line == 0 && cfg->errfunc == NULL && cfg->name != NULL && strcmp(cfg->name, "root") == 0 && cfg->title == NULL && cfg->path == NULL,
		      "a new context is the root: named root, given flags, no file, line 0");
		free(cfg->opts); free(cfg->name); free(cfg);
	} else
		CHECK("C18", g_initdef_calls == 0, "a failed initialisation materialises nothing");
	CANARY("cfg_init");
}

/* contract::cfg_free(cfg): every field released once; the option values first (each option once), then the option
 * array, the search path; a ROOT context also tears the scanner down (C08) */
static int g_fv_calls, g_foa_calls, g_fsp_calls, g_destroy_calls; static cfg_opt_t *g_foa_arg; static cfg_searchpath_t *g_fsp_arg;
void cfg_yylex_destroy(void) { g_destroy_calls++; }
extern int cfg_yylex(cfg_t *cfg); int cfg_yylex(cfg_t *cfg) { (void)cfg; return 0; }
int cfg_lexer_include(cfg_t *cfg, const char *f) { (void)cfg; (void)f; return 0; }
void cfg_scan_fp_begin(FILE *fp) { (void)fp; }
void cfg_scan_fp_end(void) {}
void h_cfg_free(void)
{
	cfg_t *cfg = cfgv_alloc(sizeof(cfg_t)); _Bool root = nondet_bool(); int rc;
	memset(cfg, 0, sizeof *cfg);
	cfg->name = cfgv_alloc(5); cfg->name[0] = root ? 'r' : 's'; cfg->name[1] = root ? 'o' : 'e'; cfg->name[2] = root ? 'o' : 'c'; cfg->name[3] = 't'; cfg->name[4] = 0;
	cfg->title = nondet_bool() ? str1() : NULL; cfg->filename = nondet_bool() ? str1() : NULL; cfg->comment = nondet_bool() ? str1() : NULL;
	cfg->opts = cfgv_alloc(2 * sizeof(cfg_opt_t)); memset(cfg->opts, 0, 2 * sizeof(cfg_opt_t));
	cfg->opts[0].name = str1(); cfg->opts[0].type = CFGT_INT;
	/* a root owns its search path list (sections share it and are handed over with the pointer cleared) */
	if (root && nondet_bool()) {
		cfg_searchpath_t *a = cfgv_alloc(sizeof *a), *b = cfgv_alloc(sizeof *b);
		a->dir = str1(); a->next = b; b->dir = str1(); b->next = NULL; cfg->path = a;
	}
	g_destroy_calls = 0;
	rc = cfg_free(cfg);
	CHECK("C07", rc == CFG_SUCCESS, "releasing a context succeeds");
	CHECK("C08", g_destroy_calls == (root ? 1 : 0), "releasing a root context tears the scanner down (once); releasing a section does not");
	CHECK("C07", cfg_free(NULL) == CFG_FAIL, "releasing NULL fails");
	CANARY("cfg_free");
}

/* contract::cfg_getopt_leaf(cfg, name): the FIRST option whose name equals name - letter case ignored iff the
 * context is case-insensitive - or NULL; nothing is modified */
static _Bool name_eq2(const char *a, const char *b, _Bool nocase)
{
	for (int i = 0; i < 3; i++) {
		char x = nocase ? (char)cfgv_lc((unsigned char)a[i]) : a[i], y = nocase ? (char)cfgv_lc((unsigned char)b[i]) : b[i];
		if (x != y) return 0;
		if (x == 0) return 1;
	}
	return 1;
}
char in_n0[3], in_n1[3], in_q[3];
void h_getopt_leaf(void)
{
	cfg_t cfg; cfg_opt_t opts[3]; int want = -1; cfg_opt_t *r; _Bool nocase;
	memset(&cfg, 0, sizeof cfg); memset(opts, 0, sizeof opts);
	cfg.flags = nondet_bool() ? (CFGF_NOCASE | CFGF_IGNORE_UNKNOWN) : CFGF_COMMENTS;
	nocase = (cfg.flags & CFGF_NOCASE) != 0;
	/* names of 1..2 bytes (one may be a prefix of the other): lookup is by the WHOLE name */
	in_n0[0] = nondet_char(); in_n0[1] = nondet_char(); in_n0[2] = 0; in_n1[0] = nondet_char(); in_n1[1] = nondet_char(); in_n1[2] = 0;
	in_q[0] = nondet_char(); in_q[1] = nondet_char(); in_q[2] = 0;
	__CPROVER_assume(in_n0[0] != 0 && in_n1[0] != 0);
	opts[0].name = in_n0; opts[1].name = in_n1;
	opts[0].flags = nondet_int(); opts[1].flags = nondet_int();      /* an option's own flags (its own NOCASE included) play no part in finding it */
	cfg.opts = nondet_bool() ? opts : NULL;
	if (cfg.opts)
		want = name_eq2(in_q, in_n0, nocase) ? 0 : name_eq2(in_q, in_n1, nocase) ? 1 : -1;
	r = cfg_getopt_leaf(&cfg, in_q);
	CHECK("C01,C11,C12", r == (want < 0 ? NULL : &opts[want]), "a name resolves to the first option carrying exactly it (case-insensitively iff the context says so), else to nothing");
	CANARY("getopt_leaf");
}

/* contract::cfg_addopt(cfg, key) (free-form sections): success -> one string option named by a private copy of key is
 * appended before the terminator, the others keep their content; failure -> NULL and the context still owns a valid,
 * terminated option array (C18) */
void *reallocarray(void *p, size_t n, size_t sz)
{
	/* reference (glibc): overflow-checked realloc; sizes here are small constants */
	return realloc(p, n * sz);
}
static void b_addopt(unsigned n)
{
	cfg_t cfg; cfg_opt_t *r; char key[2]; const char *names[NOPT + 1];
	memset(&cfg, 0, sizeof cfg);
	cfg.opts = cfgv_alloc((n + 1) * sizeof(cfg_opt_t)); memset(cfg.opts, 0, (n + 1) * sizeof(cfg_opt_t));
	for (unsigned i = 0; i < n; i++) { cfg.opts[i].name = str1(); cfg.opts[i].type = CFGT_STR; names[i] = cfg.opts[i].name; }
	key[0] = nondet_char(); key[1] = 0;
	r = cfg_addopt(&cfg, key);
#ifdef CFGV_NO_ALLOC_FAILURE
	CHECK("C01", r != NULL, "creating a free-form key succeeds (no allocation failure in this unit)");
#endif
	CHECK("C18", cfg.opts != NULL && __CPROVER_r_ok(cfg.opts, (n + 1) * sizeof(cfg_opt_t)), "after adding a key - or failing to - the context owns a live option array");
	if (r) {
		CHECK("C01", r == &cfg.opts[n] && r->type == CFGT_STR && r->name != NULL && r->name != key && r->name[0] == key[0] && cfg.opts[n + 1].name == NULL, "a new free-form key is a string option appended before the terminator, named by a private copy");
	} else
		CHECK("C18", cfg.opts[n].name == NULL, "a failed key creation leaves the array terminated where it was");
	for (unsigned i = 0; i < NOPT; i++) if (i < n) CHECK("C01,C18", cfg.opts[i].name == names[i], "the existing options are carried over");
}
void h_addopt(void)
{
	unsigned k = nondet_uint();
	if (k == 0) b_addopt(0); else if (k == 1) b_addopt(1); else if (NOPT >= 2) b_addopt(2);
	CANARY("addopt");
}
