"""Registry of proof units (DESIGN.md 3.4).  One entry = one CBMC run."""

TRUSTED_BASE = [
    "CBMC 6.11 (goto-cc front end, symbolic execution, SAT/SMT back ends); machine integers bit-precise",
    "flex 2.6.4 skeleton: driver loop = longest match / earliest rule over the generated tables, then the rule action",
    "libc functions behave as C11/POSIX specify (assumed contracts; bounded reference implementations in carriers/ref_strings.h, compared with glibc by setup.sh)",
    "composition of per-function contracts into whole-library statements is argued in DESIGN.md, not machine-checked",
]

UNITS = []


def U(name, **kw):
    kw["name"] = name
    kw.setdefault("tu", "confuse")
    kw.setdefault("style", "S2")
    kw.setdefault("tiers", ("quick", "thorough"))
    UNITS.append(kw)


OOM = ["--malloc-may-fail", "--malloc-fail-null"]   # (the default of CBMC 6; spelled out)
NOOOM = ["--no-malloc-may-fail"]


def unw(n):
    return ["--unwind", str(n), "--unwinding-assertions"]


# ------------------------------------------------------------------ C04 numeric / boolean conversion
U("setopt_int_concrete", harness="harness/setopt_num.c", entry="h_setopt_int_concrete", func="cfg_setopt",
  defs={"quick": ["-DTOKN=4"], "thorough": ["-DTOKN=6"]}, cbmc={"quick": unw(24), "thorough": unw(24)},
  label="bounded(|token|<=4 quick, 6 thorough; all bytes; all errno)", props=["C04", "C06", "C10", "C02"],
  replay="replay/setopt_scalar.c", cost=20)
U("setopt_bool_concrete", harness="harness/setopt_num.c", entry="h_setopt_bool_concrete", func="cfg_setopt",
  defs={"quick": ["-DTOKN=5"], "thorough": ["-DTOKN=7"]}, cbmc={"quick": unw(8), "thorough": unw(10)},
  label="bounded(|token|<=5 quick, 7 thorough; all bytes)", props=["C04", "C06", "C10", "C02"],
  replay="replay/setopt_scalar.c", cost=10)
U("parse_boolean", harness="harness/setopt_num.c", entry="h_parse_boolean", func="cfg_parse_boolean",
  defs={"quick": ["-DTOKN=5"], "thorough": ["-DTOKN=7"]}, cbmc={"quick": unw(8), "thorough": unw(10)},
  label="bounded(|token|<=5 quick, 7 thorough; all bytes)", props=["C04", "C02"], cost=5)

U("setopt_float_abstract", harness="harness/setopt_num.c", entry="h_setopt_float_abstract", func="cfg_setopt",
  defs={"quick": ["-DTOKN=4", "-DCFGV_ABSTRACT_NUM", "-DCFGV_NO_REF_STRTOL"], "thorough": ["-DTOKN=8", "-DCFGV_ABSTRACT_NUM", "-DCFGV_NO_REF_STRTOL"]},
  cbmc={"quick": unw(7), "thorough": unw(11)},
  label="proof over the conversion's ghost facts (token bytes bounded only for strlen: 4 quick, 8 thorough)", props=["C04", "C06", "C10", "C02"],
  trusted=["strtod: assumed contract C11 7.22.1.3 (arbitrary value / end offset / range error; errno written only on range error)"],
  replay="replay/setopt_float.c", cost=10)
U("setopt_int_abstract", harness="harness/setopt_num.c", entry="h_setopt_int_abstract", func="cfg_setopt",
  defs={"quick": ["-DTOKN=4", "-DCFGV_ABSTRACT_NUM", "-DCFGV_NO_REF_STRTOL"], "thorough": ["-DTOKN=8", "-DCFGV_ABSTRACT_NUM", "-DCFGV_NO_REF_STRTOL"]},
  cbmc={"quick": unw(24), "thorough": unw(24)},
  label="proof over the conversion's ghost facts (token bytes bounded only for strlen: 4 quick, 8 thorough)", props=["C04", "C06", "C10", "C02"],
  trusted=["strtol: assumed contract C11 7.22.1.4 (arbitrary value / end offset / range error; errno written only on range error)"],
  replay="replay/setopt_int_range.c", cost=10)

# ------------------------------------------------------------------ value store (C09 C10 C07 C18 C15 C14)
LEAK = ["--memory-leak-check"]
CF = dict(remove=["cfg_free"], carriers=["carriers/cfg_free.c"])
CFG = dict(remove=["cfg_free", "cfg_getopt"], carriers=["carriers/cfg_free.c", "carriers/cfg_getopt.c"])


def per_count(name, counts_quick=(0, 1, 2), counts_thorough=(0, 1, 2, 3), label="", **kw):
    """one CBMC process per number of values held (the shape is a compile-time constant, DESIGN 2.2)"""
    for n in counts_thorough:
        k = dict(kw)
        k["defs"] = {"quick": ["-DNV=3", "-DSHAPE_N=%d" % n] + kw.get("xdefs", [])}
        k.pop("xdefs", None)
        k["label"] = "bounded(shape: %d value(s) held; %s)" % (n, label)
        k["tiers"] = ("quick", "thorough") if n in counts_quick else ("thorough",)
        U("%s_n%d" % (name, n), **k)


FLAGTXT = "6 literal flag words covering every RESET/LIST/MULTI combination; index, values symbolic"
per_count("opt_getval", entry="h_opt_getval", func="cfg_opt_getval", harness="harness/store.c", cbmc=unw(6) + OOM, label=FLAGTXT,
          props=["C09", "C10", "C18", "C02"], cost=30, **CF)
per_count("opt_setnint", entry="h_opt_setnint", func="cfg_opt_setnint", harness="harness/store.c", cbmc=unw(6) + OOM, label=FLAGTXT,
          props=["C09", "C10", "C18", "C02"], cost=30, **CF)
per_count("opt_setnfloat_bool", entry="h_opt_setnfloat_bool", func="cfg_opt_setnfloat, cfg_opt_setnbool", harness="harness/store.c", cbmc=unw(6) + OOM,
          label=FLAGTXT, props=["C09", "C10", "C18", "C02"], cost=40, **CF)
per_count("opt_setnstr", entry="h_opt_setnstr", func="cfg_opt_setnstr", harness="harness/store.c", cbmc=unw(6) + OOM, label=FLAGTXT + "; strings <= 2 bytes",
          props=["C09", "C10", "C18", "C16", "C02"], cost=60, **CF)
U("opt_setcomment", entry="h_opt_setcomment", func="cfg_opt_setcomment", harness="harness/store.c", defs={"quick": ["-DNV=2"]}, cbmc=unw(6) + OOM + LEAK,
  label="bounded(annotation <= 2 bytes)", props=["C15", "C18", "C07", "C16", "C02"], cost=10, **CF)
per_count("free_value", entry="h_free_value", func="cfg_free_value", harness="harness/store.c", cbmc=unw(6) + LEAK,
          label="7 option types, default marker set / clear, release callback present / absent", props=["C07", "C02"], cost=30, **CF)
per_count("addval", entry="h_addval", func="cfg_addval", harness="harness/store2.c", cbmc=unw(6) + OOM + LEAK, label=FLAGTXT,
          props=["C09", "C18", "C07", "C02"], cost=10, **CF)
for _n, _m in ((0, 1), (1, 1), (0, 2), (1, 2), (2, 1), (2, 2)):
    U("setmulti_n%dm%d" % (_n, _m), entry="h_setmulti", func="cfg_opt_setmulti", cbmc=unw(6) + OOM + LEAK, remove=["cfg_free", "cfg_setopt"],
      carriers=["carriers/cfg_free.c", "carriers/cfg_setopt_scalar.c"], harness="harness/store2.c",
      defs={"quick": ["-DNV=2", "-DSHAPE_N=%d" % _n, "-DSHAPE_M=%d" % _m]},
      label="bounded(old count %d, new count %d; failing element at every position; any allocation may fail; 6 literal flag words; cfg_setopt by contract)" % (_n, _m),
      props=["C09", "C10", "C07", "C14", "C18", "C02"], cost=60)
U("setmulti_args", entry="h_setmulti_args", func="cfg_opt_setmulti", harness="harness/store2.c", defs={"quick": ["-DNV=2"]}, cbmc=unw(6),
  label="proof (loop-free paths: argument validation)", props=["C09", "C10", "C02"], cost=5, **CF)
per_count("addlist", counts_quick=(0, 1), counts_thorough=(0, 1, 2), entry="h_addlist", func="cfg_addlist, cfg_addlist_internal", harness="harness/store2.c",
          cbmc=unw(6) + NOOOM, label="no allocation failure; 2 appended values; " + FLAGTXT, props=["C09", "C10", "C02"], cost=40, **CFG)
per_count("setlist", counts_quick=(0, 1), counts_thorough=(0, 1, 2), entry="h_setlist", func="cfg_setlist, cfg_addlist_internal", harness="harness/store2.c",
          cbmc=unw(6) + NOOOM, label="no allocation failure; 2 new values; " + FLAGTXT, props=["C09", "C10", "C02"], cost=40, **CFG)
per_count("setnint_byname", counts_quick=(0, 1), counts_thorough=(0, 1, 2), entry="h_setnint_byname", func="cfg_setnint", harness="harness/store2.c",
          cbmc=unw(6) + OOM, label=FLAGTXT, props=["C14", "C10", "C09", "C02"], cost=20, **CFG)
U("setnstr_byname", entry="h_setnstr_byname", func="cfg_setnstr", harness="harness/store2.c", defs={"quick": ["-DNV=2"]}, cbmc=unw(6) + OOM,
  label="bounded(one value, strings <= 2 bytes)", props=["C14", "C10", "C02"], cost=10, **CFG)
U("setnfloat_byname", entry="h_setnfloat_byname", func="cfg_setnfloat", harness="harness/store2.c", defs={"quick": ["-DNV=2"]}, cbmc=unw(6) + OOM,
  label="proof (loop-free for one value)", props=["C14", "C10", "C02"], cost=10, **CFG)

# ------------------------------------------------------------------ cfg_setopt arms
per_count("setopt_pcb_int", counts_quick=(0, 1, 2), counts_thorough=(0, 1, 2), entry="h_setopt_pcb_int", func="cfg_setopt", harness="harness/setopt_arms.c",
          cbmc=unw(6) + OOM, label="INT arm with parse callback; " + FLAGTXT, props=["C14", "C10", "C01", "C09", "C18", "C02"], cost=20, **CF)
per_count("setopt_ptr", counts_quick=(0, 1), counts_thorough=(0, 1), entry="h_setopt_ptr", func="cfg_setopt", harness="harness/setopt_arms.c",
          cbmc=unw(6) + OOM, label="PTR arm, scalar; parse / release callbacks present or absent", props=["C07", "C14", "C10", "C09", "C02"], cost=10, **CF)
per_count("setopt_str", counts_quick=(0, 1, 2), counts_thorough=(0, 1, 2), entry="h_setopt_str", func="cfg_setopt", harness="harness/setopt_arms.c",
          cbmc=unw(6) + OOM, label="STR arm with / without parse callback; strings <= 2 bytes; " + FLAGTXT, props=["C01", "C14", "C07", "C16", "C09", "C18", "C02"], cost=40, **CF)
U("setopt_args", entry="h_setopt_args", func="cfg_setopt", harness="harness/setopt_arms.c", defs={"quick": ["-DNV=2"]}, cbmc=unw(6) + OOM,
  label="proof (loop-free paths: argument validation)", props=["C09", "C10", "C02"], cost=5, **CF)

# ------------------------------------------------------------------ sections
SECC = dict(remove=["cfg_free", "cfg_dupopt_array", "cfg_init_defaults"], carriers=["carriers/cfg_free.c", "carriers/cfg_dupopt_array.c", "carriers/cfg_init_defaults.c"])
SECTXT = "7 literal option flag words (MULTI/TITLE/NO_TITLE_DUPES/NOCASE/KEYSTRVAL/DEFINIT) x 2 context flag words; titles 1 byte over all bytes"
per_count("setopt_sec", counts_quick=(0, 1, 2), counts_thorough=(0, 1, 2), entry="h_setopt_sec", func="cfg_setopt", harness="harness/sections.c",
          cbmc=unw(8) + OOM, label="section arm; " + SECTXT + "; any allocation may fail", props=["C01", "C09", "C10", "C07", "C16", "C18", "C06", "C12", "C02"], cost=60, **SECC)
per_count("gettsec", counts_quick=(0, 1, 2), counts_thorough=(0, 1, 2, 3), entry="h_gettsec", func="cfg_opt_gettsecidx, cfg_opt_gettsec", harness="harness/sections.c",
          cbmc=unw(8), label=SECTXT, props=["C09", "C11", "C02"], cost=20, **SECC)
per_count("rmnsec", counts_quick=(0, 1, 2), counts_thorough=(0, 1, 2, 3), entry="h_rmnsec", func="cfg_opt_rmnsec", harness="harness/sections.c",
          cbmc=unw(8) + LEAK, label=SECTXT + "; index 0,1,2,7", props=["C09", "C10", "C07", "C02"], cost=30, **SECC)
per_count("rmtsec", counts_quick=(0, 1, 2), counts_thorough=(0, 1, 2, 3), entry="h_rmtsec", func="cfg_opt_rmtsec", harness="harness/sections.c",
          cbmc=unw(8), label=SECTXT, props=["C09", "C10", "C07", "C02"], cost=30, **SECC)

# ------------------------------------------------------------------ grammar (cfg_parse_internal)
PARSEC = dict(remove=["cfg_getopt", "cfg_setopt", "cfg_addopt", "cfg_addval", "call_function", "cfg_free_value", "cfg_opt_setcomment"],
              carriers=["carriers/parse_carriers.c"], harness="harness/parse_step.c", func="cfg_parse_internal")
U("parse_step", entry="h_parse_step", cbmc=unw(6) + NOOOM + LEAK, defs={"quick": []},
  label="proof* (hand-applied invariant rule, DESIGN 5.C01: any state, any token, any flags/verdicts; strings <= 2 bytes only for the copied token text)",
  props=["C01", "C06", "C07", "C12", "C14", "C15", "C18", "C02", "C13", "C17"], cost=60, **PARSEC)
U("parse_step_args", entry="h_parse_step", cbmc=unw(6) + NOOOM + LEAK, defs={"quick": ["-DCFGV_STEP_ARGS_LEAK_CASE"]},
  label="proof* (same step, restricted to states 8/9 with collected call arguments: finding unit)",
  props=["C07", "C14"], cost=30, **PARSEC)
U("parse_base", entry="h_parse_base", cbmc=unw(6) + NOOOM, defs={"quick": []}, expect_canary=False,
  label="proof (loop-free: entry to first loop head)", props=["C01", "C02", "C12"], cost=10, **PARSEC)

# ------------------------------------------------------------------ per-property text for MANIFEST / evidence
HOOK_COMMITS = []
NOT_APPLICABLE = {}
PROPERTY_INFO = {
    "C04": {"level": "other",
            "text": "cfg_setopt() INT/FLOAT/BOOL arms and cfg_parse_boolean() under contract; postconditions taken from the statement (spec/num_spec.h). "
                    "Integer and boolean tokens: every token up to 4 (quick) / 6 (thorough) bytes over all byte values, every entry errno - bounded stand-in. "
                    "Range of long, float numerals and errno independence for tokens of any length: proved over the ghost facts of an abstract strtol/strtod carrier.",
            "note": "strtol/strtod/strcasecmp/strspn are assumed contracts (C11).",
            "explanation": "cfg_setopt() INT/FLOAT/BOOL arms and cfg_parse_boolean() checked against spec/num_spec.h by CBMC: "
                           "every token up to the stated length over all 256 byte values, every entry errno, every flag word.",
            "assumptions": []},
}
