"""Registry of proof units (DESIGN.md 3.4).  One entry = one CBMC run."""

TRUSTED_BASE = [
    "CBMC 6.11 (goto-cc front end, symbolic execution, SAT/SMT back ends); machine integers bit-precise",
    "flex 2.6.4 skeleton: driver loop = longest match / earliest rule over the generated tables, then the rule action",
    "libc functions behave as C11/POSIX specify (assumed contracts; bounded reference implementations in carriers/ref_strings.h, compared with glibc by setup.sh)",
    "composition of per-function contracts into whole-library statements is argued in DESIGN.md, not machine-checked",
]

UNITS = []


def U(name, **kw):
    kw["name"] = name
    kw.setdefault("tu", "confuse")
    kw.setdefault("style", "S2")
    kw.setdefault("tiers", ("quick", "thorough"))
    UNITS.append(kw)


OOM = ["--malloc-may-fail", "--malloc-fail-null"]


def unw(n):
    return ["--unwind", str(n), "--unwinding-assertions"]


# ------------------------------------------------------------------ C04 numeric / boolean conversion
U("setopt_int_concrete", harness="harness/setopt_num.c", entry="h_setopt_int_concrete", func="cfg_setopt",
  defs={"quick": ["-DTOKN=4"], "thorough": ["-DTOKN=6"]}, cbmc={"quick": unw(24), "thorough": unw(24)},
  label="bounded(|token|<=4 quick, 6 thorough; all bytes; all errno)", props=["C04", "C06", "C10", "C02"],
  replay="replay/setopt_scalar.c", cost=20)
U("setopt_bool_concrete", harness="harness/setopt_num.c", entry="h_setopt_bool_concrete", func="cfg_setopt",
  defs={"quick": ["-DTOKN=5"], "thorough": ["-DTOKN=7"]}, cbmc={"quick": unw(8), "thorough": unw(10)},
  label="bounded(|token|<=5 quick, 7 thorough; all bytes)", props=["C04", "C06", "C10", "C02"],
  replay="replay/setopt_scalar.c", cost=10)
U("parse_boolean", harness="harness/setopt_num.c", entry="h_parse_boolean", func="cfg_parse_boolean",
  defs={"quick": ["-DTOKN=5"], "thorough": ["-DTOKN=7"]}, cbmc={"quick": unw(8), "thorough": unw(10)},
  label="bounded(|token|<=5 quick, 7 thorough; all bytes)", props=["C04", "C02"], cost=5)

U("setopt_float_abstract", harness="harness/setopt_num.c", entry="h_setopt_float_abstract", func="cfg_setopt",
  defs={"quick": ["-DTOKN=4", "-DCFGV_ABSTRACT_NUM", "-DCFGV_NO_REF_STRTOL"], "thorough": ["-DTOKN=8", "-DCFGV_ABSTRACT_NUM", "-DCFGV_NO_REF_STRTOL"]},
  cbmc={"quick": unw(7), "thorough": unw(11)},
  label="proof over the conversion's ghost facts (token bytes bounded only for strlen: 4 quick, 8 thorough)", props=["C04", "C06", "C10", "C02"],
  trusted=["strtod: assumed contract C11 7.22.1.3 (arbitrary value / end offset / range error; errno written only on range error)"],
  replay="replay/setopt_float.c", cost=10)
U("setopt_int_abstract", harness="harness/setopt_num.c", entry="h_setopt_int_abstract", func="cfg_setopt",
  defs={"quick": ["-DTOKN=4", "-DCFGV_ABSTRACT_NUM", "-DCFGV_NO_REF_STRTOL"], "thorough": ["-DTOKN=8", "-DCFGV_ABSTRACT_NUM", "-DCFGV_NO_REF_STRTOL"]},
  cbmc={"quick": unw(24), "thorough": unw(24)},
  label="proof over the conversion's ghost facts (token bytes bounded only for strlen: 4 quick, 8 thorough)", props=["C04", "C06", "C10", "C02"],
  trusted=["strtol: assumed contract C11 7.22.1.4 (arbitrary value / end offset / range error; errno written only on range error)"],
  replay="replay/setopt_int_range.c", cost=10)

# ------------------------------------------------------------------ value store (C09 C10 C07 C18 C15)
STORE = dict(harness="harness/store.c", defs={"quick": ["-DNV=2"], "thorough": ["-DNV=3"]})
LEAK = ["--memory-leak-check"]
U("opt_getval", entry="h_opt_getval", func="cfg_opt_getval", cbmc=unw(6) + OOM, remove=["cfg_free"], carriers=["carriers/cfg_free.c"],
  label="bounded(shape: <= 2 values quick, 3 thorough; every flag word, index, well-formed state)", props=["C09", "C10", "C18", "C07", "C02"], cost=20, **STORE)
U("opt_setnint", entry="h_opt_setnint", func="cfg_opt_setnint", cbmc=unw(6) + OOM, remove=["cfg_free"], carriers=["carriers/cfg_free.c"],
  label="bounded(shape: <= 2 values quick, 3 thorough)", props=["C09", "C10", "C18", "C07", "C02"], cost=20, **STORE)
U("opt_setnfloat_bool", entry="h_opt_setnfloat_bool", func="cfg_opt_setnfloat, cfg_opt_setnbool", cbmc=unw(6) + OOM, remove=["cfg_free"], carriers=["carriers/cfg_free.c"],
  label="bounded(shape: <= 2 values quick, 3 thorough)", props=["C09", "C10", "C18", "C07", "C02"], cost=20, **STORE)
U("opt_setnstr", entry="h_opt_setnstr", func="cfg_opt_setnstr", cbmc=unw(6) + OOM, remove=["cfg_free"], carriers=["carriers/cfg_free.c"],
  label="bounded(shape: <= 2 values quick, 3 thorough; strings <= 2 bytes)", props=["C09", "C10", "C18", "C07", "C16", "C02"], cost=30, **STORE)
U("opt_setcomment", entry="h_opt_setcomment", func="cfg_opt_setcomment", cbmc=unw(6) + OOM + LEAK, remove=["cfg_free"], carriers=["carriers/cfg_free.c"],
  label="bounded(annotation <= 2 bytes)", props=["C15", "C18", "C07", "C16", "C02"], cost=10, **STORE)
U("free_value", entry="h_free_value", func="cfg_free_value", cbmc=unw(6) + LEAK, remove=["cfg_free"], carriers=["carriers/cfg_free.c"],
  label="bounded(shape: <= 2 values quick, 3 thorough; every type, flag word, callback presence)", props=["C07", "C02"], cost=20, **STORE)

# ------------------------------------------------------------------ per-property text for MANIFEST / evidence
HOOK_COMMITS = []
NOT_APPLICABLE = {}
PROPERTY_INFO = {
    "C04": {"level": "other",
            "text": "cfg_setopt() INT/FLOAT/BOOL arms and cfg_parse_boolean() under contract; postconditions taken from the statement (spec/num_spec.h). "
                    "Integer and boolean tokens: every token up to 4 (quick) / 6 (thorough) bytes over all byte values, every entry errno - bounded stand-in. "
                    "Range of long, float numerals and errno independence for tokens of any length: proved over the ghost facts of an abstract strtol/strtod carrier.",
            "note": "strtol/strtod/strcasecmp/strspn are assumed contracts (C11).",
            "explanation": "cfg_setopt() INT/FLOAT/BOOL arms and cfg_parse_boolean() checked against spec/num_spec.h by CBMC: "
                           "every token up to the stated length over all 256 byte values, every entry errno, every flag word.",
            "assumptions": []},
}
