"""Registry of proof units (DESIGN.md 3.4).  One entry = one CBMC run."""

TRUSTED_BASE = [
    "CBMC 6.11 (goto-cc front end, symbolic execution, SAT/SMT back ends); machine integers bit-precise",
    "flex 2.6.4 skeleton: driver loop = longest match / earliest rule over the generated tables, then the rule action",
    "libc functions behave as C11/POSIX specify (assumed contracts; bounded reference implementations in carriers/ref_strings.h, compared with glibc by setup.sh)",
    "composition of per-function contracts into whole-library statements is argued in DESIGN.md, not machine-checked",
]

UNITS = []


def U(name, **kw):
    kw["name"] = name
    kw.setdefault("tu", "confuse")
    kw.setdefault("style", "S2")
    kw.setdefault("tiers", ("quick", "thorough"))
    UNITS.append(kw)


OOM = ["--malloc-may-fail", "--malloc-fail-null"]   # (the default of CBMC 6; spelled out)
NOOOM = ["--no-malloc-may-fail"]


def unw(n):
    return ["--unwind", str(n), "--unwinding-assertions"]


# ------------------------------------------------------------------ C04 numeric / boolean conversion
U("setopt_int_concrete", harness="harness/setopt_num.c", entry="h_setopt_int_concrete", func="cfg_setopt",
  defs={"quick": ["-DTOKN=4"], "thorough": ["-DTOKN=6"]}, cbmc={"quick": unw(24), "thorough": unw(24)},
  label="bounded(|token|<=4 quick, 6 thorough; all bytes; all errno)", props=["C04", "C06", "C10", "C02", "C05"],
  replay="replay/setopt_scalar.c", cost=20)
U("setopt_bool_concrete", harness="harness/setopt_num.c", entry="h_setopt_bool_concrete", func="cfg_setopt",
  defs={"quick": ["-DTOKN=5"], "thorough": ["-DTOKN=7"]}, cbmc={"quick": unw(8), "thorough": unw(10)},
  label="bounded(|token|<=5 quick, 7 thorough; all bytes)", props=["C04", "C06", "C10", "C02", "C05"],
  replay="replay/setopt_scalar.c", cost=10)
U("parse_boolean", harness="harness/setopt_num.c", entry="h_parse_boolean", func="cfg_parse_boolean",
  defs={"quick": ["-DTOKN=5"], "thorough": ["-DTOKN=7"]}, cbmc={"quick": unw(8), "thorough": unw(10)},
  label="bounded(|token|<=5 quick, 7 thorough; all bytes)", props=["C04", "C02"], cost=5)

U("setopt_int_states", harness="harness/setopt_num.c", entry="h_setopt_int_unconvertible_states", func="cfg_setopt", defs={"quick": ["-DTOKN=4"]}, cbmc=unw(24) + NOOOM,
  label="bounded(4 literal option states: pristine default, emptied, list, list holding defaults): finding unit", props=["C10", "C04", "C06", "C02"], cost=10)
U("setopt_float_abstract", harness="harness/setopt_num.c", entry="h_setopt_float_abstract", func="cfg_setopt",
  defs={"quick": ["-DTOKN=4", "-DCFGV_ABSTRACT_NUM", "-DCFGV_NO_REF_STRTOL"], "thorough": ["-DTOKN=8", "-DCFGV_ABSTRACT_NUM", "-DCFGV_NO_REF_STRTOL"]},
  cbmc={"quick": unw(7), "thorough": unw(11)},
  label="proof over the conversion's ghost facts (token bytes bounded only for strlen: 4 quick, 8 thorough)", props=["C04", "C06", "C10", "C02", "C05"],
  trusted=["strtod: assumed contract C11 7.22.1.3 (arbitrary value / end offset / range error; errno written only on range error)"],
  replay="replay/setopt_float.c", cost=10)
U("setopt_int_abstract", harness="harness/setopt_num.c", entry="h_setopt_int_abstract", func="cfg_setopt",
  defs={"quick": ["-DTOKN=4", "-DCFGV_ABSTRACT_NUM", "-DCFGV_NO_REF_STRTOL"], "thorough": ["-DTOKN=8", "-DCFGV_ABSTRACT_NUM", "-DCFGV_NO_REF_STRTOL"]},
  cbmc={"quick": unw(24), "thorough": unw(24)},
  label="proof over the conversion's ghost facts (token bytes bounded only for strlen: 4 quick, 8 thorough)", props=["C04", "C06", "C10", "C02", "C05"],
  trusted=["strtol: assumed contract C11 7.22.1.4 (arbitrary value / end offset / range error; errno written only on range error)"],
  replay="replay/setopt_int_range.c", cost=10)

# ------------------------------------------------------------------ value store (C09 C10 C07 C18 C15 C14)
LEAK = ["--memory-leak-check"]
CF = dict(remove=["cfg_free"], carriers=["carriers/cfg_free.c"])
CFG = dict(remove=["cfg_free", "cfg_getopt"], carriers=["carriers/cfg_free.c", "carriers/cfg_getopt.c"])


def per_count(name, counts_quick=(0, 1, 2), counts_thorough=(0, 1, 2, 3), label="", **kw):
    """one CBMC process per number of values held (the shape is a compile-time constant, DESIGN 2.2)"""
    for n in counts_thorough:
        k = dict(kw)
        k["defs"] = {"quick": ["-DNV=3", "-DSHAPE_N=%d" % n] + kw.get("xdefs", [])}
        k.pop("xdefs", None)
        k["label"] = "bounded(shape: %d value(s) held; %s)" % (n, label)
        k["tiers"] = ("quick", "thorough") if n in counts_quick else ("thorough",)
        U("%s_n%d" % (name, n), **k)


def nofail_twin(name, **over):
    """the same unit without allocation failure (-DCFGV_NO_ALLOC_FAILURE): there a legal call MUST succeed - under
    'any allocation may fail' a result of failure is always excusable, so a body that never succeeds would pass"""
    src = [u for u in UNITS if u["name"] == name][0]
    k = {x: (dict(y) if isinstance(y, dict) else (list(y) if isinstance(y, list) else y)) for x, y in src.items() if x != "name"}
    k["defs"] = {t: list(v) + ["-DCFGV_NO_ALLOC_FAILURE"] for t, v in src["defs"].items()}
    cb = src["cbmc"]
    strip = lambda fl: [f for f in fl if f not in ("--no-malloc-may-fail", "--malloc-may-fail", "--malloc-fail-null")] + ["--no-malloc-may-fail"]
    k["cbmc"] = {t: strip(v) for t, v in cb.items()} if isinstance(cb, dict) else strip(cb)
    k["label"] = src["label"].replace("any allocation may fail", "no allocation failure") + "; no allocation failure: a legal call must succeed"
    k.update(over)
    U(name + "_nofail", **k)


FLAGTXT = "6 literal flag words covering every RESET/LIST/MULTI combination; index, values symbolic"
per_count("opt_getval", entry="h_opt_getval", func="cfg_opt_getval", harness="harness/store.c", cbmc=unw(6) + OOM, label=FLAGTXT, replay="replay/store_api.c",
          props=["C09", "C10", "C18", "C07", "C02"], cost=30, **CF)
per_count("opt_setnint", entry="h_opt_setnint", func="cfg_opt_setnint", harness="harness/store.c", cbmc=unw(6) + OOM, label=FLAGTXT, replay="replay/store_api.c",
          props=["C09", "C10", "C18", "C07", "C02"], cost=30, **CF)
per_count("opt_setnfloat_bool", entry="h_opt_setnfloat_bool", func="cfg_opt_setnfloat, cfg_opt_setnbool", harness="harness/store.c", cbmc=unw(6) + OOM,
          label=FLAGTXT, props=["C09", "C10", "C18", "C07", "C02"], cost=40, **CF)
per_count("opt_setnstr", entry="h_opt_setnstr", func="cfg_opt_setnstr", harness="harness/store.c", cbmc=unw(6) + OOM, label=FLAGTXT + "; strings <= 2 bytes", replay="replay/store_str.c",
          props=["C09", "C10", "C18", "C16", "C07", "C02"], cost=60, **CF)
for _n in ("opt_getval_n0", "opt_getval_n1", "opt_setnint_n0", "opt_setnint_n1", "opt_setnfloat_bool_n1", "opt_setnstr_n0", "opt_setnstr_n1"):
    nofail_twin(_n, tiers=("quick", "thorough"))
U("setnstr_release", entry="h_setnstr_release", func="cfg_opt_setnstr", harness="harness/store.c", defs={"quick": ["-DNV=2"]}, cbmc=unw(6) + NOOOM + LEAK,
  label="bounded(a set scalar string option, strings <= 2 bytes; no allocation failure; leak check)", props=["C07", "C09", "C02"], cost=5, **CF)
U("opt_setcomment", entry="h_opt_setcomment", func="cfg_opt_setcomment", harness="harness/store.c", defs={"quick": ["-DNV=2"]}, cbmc=unw(6) + OOM + LEAK,
  label="bounded(annotation <= 2 bytes)", props=["C15", "C18", "C07", "C16", "C02"], cost=10, **CF)
per_count("free_value", entry="h_free_value", func="cfg_free_value", harness="harness/store.c", cbmc=unw(6) + LEAK,
          label="7 option types, default marker set / clear, release callback present / absent", props=["C07", "C02"], cost=30, **CF)
per_count("addval", entry="h_addval", func="cfg_addval", harness="harness/store2.c", cbmc=unw(6) + OOM + LEAK, label=FLAGTXT,
          props=["C09", "C18", "C07", "C02"], cost=10, **CF)
for _n, _m in ((0, 1), (1, 1), (0, 2), (1, 2), (2, 1), (2, 2)):
    U("setmulti_n%dm%d" % (_n, _m), entry="h_setmulti", func="cfg_opt_setmulti", cbmc=unw(6) + OOM + LEAK, remove=["cfg_free", "cfg_setopt"],
      carriers=["carriers/cfg_free.c", "carriers/cfg_setopt_scalar.c"], harness="harness/store2.c",
      defs={"quick": ["-DNV=2", "-DSHAPE_N=%d" % _n, "-DSHAPE_M=%d" % _m]},
      label="bounded(old count %d, new count %d; failing element at every position; any allocation may fail; 6 literal flag words; cfg_setopt by contract)" % (_n, _m),
      props=["C09", "C10", "C07", "C14", "C18", "C04", "C02"], cost=60)
U("setmulti_args", entry="h_setmulti_args", func="cfg_opt_setmulti", harness="harness/store2.c", defs={"quick": ["-DNV=2"]}, cbmc=unw(6),
  label="proof (loop-free paths: argument validation)", props=["C09", "C10", "C02"], cost=5, **CF)
per_count("addlist", counts_quick=(0, 1), counts_thorough=(0, 1, 2), entry="h_addlist", func="cfg_addlist, cfg_addlist_internal", harness="harness/store2.c",
          cbmc=unw(6) + NOOOM, label="no allocation failure; 2 appended values; " + FLAGTXT, props=["C09", "C10", "C02"], cost=40, **CFG)
per_count("setlist", counts_quick=(0, 1), counts_thorough=(0, 1, 2), entry="h_setlist", func="cfg_setlist, cfg_addlist_internal", harness="harness/store2.c",
          cbmc=unw(6) + NOOOM, label="no allocation failure; 2 new values; " + FLAGTXT, props=["C09", "C10", "C02"], cost=40, **CFG)
per_count("setnint_byname", counts_quick=(0, 1), counts_thorough=(0, 1, 2), entry="h_setnint_byname", func="cfg_setnint", harness="harness/store2.c",
          cbmc=unw(6) + OOM, label=FLAGTXT, props=["C14", "C10", "C09", "C02"], cost=20, **CFG)
per_count("getters", entry="h_getters", func="cfg_opt_getnint/float/bool/str/ptr/nsec, cfg_opt_size, cfg_opt_getcomment, cfg_opt_name", harness="harness/store2.c", cbmc=unw(6) + NOOOM,
          label="5 option types, default marker set / clear, any index", props=["C01", "C09", "C02"], cost=20, **CF)
U("setnstr_byname", entry="h_setnstr_byname", func="cfg_setnstr", harness="harness/store2.c", defs={"quick": ["-DNV=2"]}, cbmc=unw(6) + OOM, replay="replay/store_str.c",
  label="bounded(one value, strings <= 2 bytes)", props=["C14", "C10", "C09", "C02"], cost=10, **CFG)
U("setnfloat_byname", entry="h_setnfloat_byname", func="cfg_setnfloat", harness="harness/store2.c", defs={"quick": ["-DNV=2"]}, cbmc=unw(6) + OOM,
  label="proof (loop-free for one value)", props=["C14", "C10", "C09", "C02"], cost=10, **CFG)

# ------------------------------------------------------------------ cfg_setopt arms
per_count("setopt_pcb_fb", counts_quick=(0, 1), counts_thorough=(0, 1, 2), entry="h_setopt_pcb_fb", func="cfg_setopt", harness="harness/setopt_arms.c",
          cbmc=unw(6) + OOM, label="FLOAT and BOOL arms with a parse callback; " + FLAGTXT, props=["C14", "C10", "C01", "C09", "C18", "C02"], cost=40, **CF)
U("setopt_simple", entry="h_setopt_simple", func="cfg_setopt", harness="harness/setopt_arms.c", defs={"quick": ["-DNV=2"]}, cbmc=unw(8) + NOOOM + LEAK,
  label="bounded(simple integer / boolean / string options with concrete texts \"12\", \"1x\", \"yes\", \"off\", \"maybe\", \"ab\"; no allocation failure)", props=["C01", "C09", "C10", "C04", "C06", "C16", "C07", "C02"], cost=10, **CF)
per_count("setopt_pcb_int", counts_quick=(0, 1, 2), counts_thorough=(0, 1, 2), entry="h_setopt_pcb_int", func="cfg_setopt", harness="harness/setopt_arms.c",
          cbmc=unw(6) + OOM, label="INT arm with parse callback; " + FLAGTXT, props=["C14", "C10", "C01", "C09", "C18", "C02"], cost=20, **CF)
per_count("setopt_ptr", counts_quick=(0, 1), counts_thorough=(0, 1), entry="h_setopt_ptr", func="cfg_setopt", harness="harness/setopt_arms.c",
          cbmc=unw(6) + OOM, label="PTR arm, scalar; parse / release callbacks present or absent", props=["C07", "C14", "C10", "C09", "C02"], cost=10, **CF)
per_count("setopt_str", counts_quick=(0, 1, 2), counts_thorough=(0, 1, 2), entry="h_setopt_str", func="cfg_setopt", harness="harness/setopt_arms.c",
          cbmc=unw(6) + OOM, label="STR arm with / without parse callback; strings <= 2 bytes; " + FLAGTXT, props=["C01", "C14", "C07", "C16", "C09", "C10", "C18", "C02"], cost=40, **CF)
U("setopt_str_nofail", entry="h_setopt_str", func="cfg_setopt", harness="harness/setopt_arms.c", defs={"quick": ["-DNV=3", "-DSHAPE_N=1", "-DCFGV_NO_ALLOC_FAILURE"]}, cbmc=unw(6) + NOOOM,
  label="bounded(shape: 1 value held; STR arm with / without parse callback, no allocation failure: an accepted text is stored; " + FLAGTXT + ")", props=["C14", "C09", "C01", "C10", "C07", "C16", "C02"], cost=20, **CF)
U("setopt_str_release", entry="h_setopt_str_release", func="cfg_setopt", harness="harness/setopt_arms.c", defs={"quick": ["-DNV=2"]}, cbmc=unw(6) + NOOOM + LEAK,
  label="bounded(a set scalar string option, strings <= 2 bytes; no allocation failure; leak check)", props=["C07", "C09", "C02"], cost=5, **CF)
U("setopt_args", entry="h_setopt_args", func="cfg_setopt", harness="harness/setopt_arms.c", defs={"quick": ["-DNV=2"]}, cbmc=unw(6) + OOM,
  label="proof (loop-free paths: argument validation)", props=["C09", "C10", "C02"], cost=5, **CF)

# ------------------------------------------------------------------ sections
SECC = dict(remove=["cfg_free", "cfg_dupopt_array", "cfg_init_defaults"], carriers=["carriers/cfg_free.c", "carriers/cfg_dupopt_array.c", "carriers/cfg_init_defaults.c"])
SECTXT = "7 literal option flag words (MULTI/TITLE/NO_TITLE_DUPES/NOCASE/KEYSTRVAL/DEFINIT/NODEFAULT) x 2 context flag words; titles 1 byte over all bytes"
per_count("setopt_sec", counts_quick=(0, 1, 2), counts_thorough=(0, 1, 2), entry="h_setopt_sec", func="cfg_setopt", harness="harness/sections.c", replay="replay/store_sections.c", replay_by_tag={"C19": "replay/print_layout.c"},
          cbmc=unw(8) + OOM, label="section arm; " + SECTXT + "; any allocation may fail", props=["C01", "C09", "C10", "C07", "C16", "C18", "C06", "C12", "C19", "C11", "C15", "C02"], cost=60, **SECC)
U("setopt_sec_oom_release", entry="h_setopt_sec_oom_release", func="cfg_setopt", harness="harness/sections.c", defs={"quick": ["-DNV=2"]}, cbmc=unw(8) + OOM + LEAK,
  label="bounded(first titled instance of an empty multi section; any allocation may fail; failing outcomes only; leak check)", props=["C07", "C18", "C02"], cost=10, **SECC)
per_count("gettsec", replay="replay/store_sections.c", counts_quick=(0, 1, 2), counts_thorough=(0, 1, 2, 3), entry="h_gettsec", func="cfg_opt_gettsecidx, cfg_opt_gettsec", harness="harness/sections.c",
          cbmc=unw(8), label=SECTXT, props=["C09", "C11", "C02"], cost=20, **SECC)
U("gettsec_long", entry="h_gettsec_long", func="cfg_opt_gettsecidx, cfg_opt_gettsec", harness="harness/sections.c", defs={"quick": ["-DNV=2"]}, cbmc=unw(8) + NOOOM,
  label="bounded(two instances, titles and the title asked for 1..2 bytes over all bytes, either case rule)", props=["C09", "C11", "C02"], cost=10, **SECC)
per_count("rmnsec", replay="replay/store_sections.c", counts_quick=(0, 1, 2, 3), counts_thorough=(0, 1, 2, 3), entry="h_rmnsec", func="cfg_opt_rmnsec", harness="harness/sections.c",
          cbmc=unw(8) + LEAK, label=SECTXT + "; index 0,1,2,7", props=["C09", "C10", "C07", "C02", "C17"], cost=30, **SECC)
per_count("rmtsec", replay="replay/store_sections.c", counts_quick=(0, 1, 2, 3), counts_thorough=(0, 1, 2, 3), entry="h_rmtsec", func="cfg_opt_rmtsec", harness="harness/sections.c",
          cbmc=unw(8), label=SECTXT, props=["C09", "C10", "C07", "C02", "C17"], cost=30, **SECC)

# ------------------------------------------------------------------ grammar (cfg_parse_internal)
PARSEC = dict(remove=["cfg_getopt", "cfg_setopt", "cfg_addopt", "cfg_addval", "call_function", "cfg_free_value", "cfg_opt_setcomment"],
              carriers=["carriers/parse_carriers.c"], harness="harness/parse_step.c", func="cfg_parse_internal")
U("parse_step", entry="h_parse_step", cbmc=unw(6) + NOOOM + LEAK, defs={"quick": []}, replay="replay/parse_step.c",
  label="proof* (hand-applied invariant rule, DESIGN 5.C01: any state, any token, any flags/verdicts; strings <= 2 bytes only for the copied token text)",
  props=["C01", "C06", "C07", "C12", "C14", "C15", "C18", "C02", "C13", "C17", "C04", "C05"], cost=60, **PARSEC)
U("parse_step_args", entry="h_parse_step", cbmc=unw(6) + NOOOM + LEAK, defs={"quick": ["-DCFGV_STEP_ARGS_LEAK_CASE"]},
  label="proof* (same step, restricted to states 8/9 with collected call arguments: finding unit)",
  props=["C07", "C14"], not_for=["C01", "C02", "C04", "C05", "C06", "C12", "C15", "C18"],   # the same step as parse_step, kept apart for the call-argument ownership case only
  cost=30, **PARSEC)
U("parse_base", entry="h_parse_base", cbmc=unw(6) + NOOOM, defs={"quick": []}, expect_canary=False,
  label="proof (loop-free: entry to first loop head)", props=["C01", "C02", "C12"], cost=10, **PARSEC)

# ------------------------------------------------------------------ scanner
U("lex_dfa", tu="lexer", harness="harness/lex_dfa.c", entry="h_lex_dfa", func="flex tables (yy_get_previous_state) vs reference automata", cbmc=unw(8) + NOOOM,
  label="proof (loop-free: every related state pair x every byte 1..255)", props=["C03", "C02", "C15", "C06", "C05", "C01"], cost=10,
  trusted=["flex driver loop (longest match, back-up) and buffer management"])

LEXTRUST = ["flex driver loop (longest match, back-up) and buffer management", "sscanf(%o/%x), getenv, isspace (C locale): assumed contracts (carriers in harness/lex_common.h)",
            "extraction of the rule actions from the generated switch (extract/extract_actions.py, must-fire checks)"]
for _nm, _props in (("act_top", ["C03", "C02", "C06", "C08", "C15", "C05", "C01"]), ("act_dq", ["C03", "C02", "C06", "C08", "C05", "C01"]), ("act_sq", ["C03", "C02", "C06", "C08", "C05", "C01"]),
                    ("act_env", ["C03", "C02", "C06", "C01"]), ("act_linecomment", ["C15", "C03", "C02", "C06", "C05"]), ("act_ccomment", ["C15", "C03", "C02", "C06", "C08", "C05"])):
    for _sh in range(5):
        if _nm == "act_top" and _sh not in (0, 2):
            continue        # top-level forms do not accumulate: two shapes are enough
        U("lex_%s_s%d" % (_nm, _sh), tu="lexer", harness="harness/lex_act.c", entry="h_" + _nm, func="scanner rule actions (%s), qputc/qput/qbeg/qend/qstr/trim_whitespace" % _nm,
          defs={"quick": ["-DTOKN=%d" % (7 if _nm == "act_env" else 4), "-DSCRATCH_SHAPE=%d" % _sh], "thorough": ["-DTOKN=%d" % (8 if _nm == "act_env" else 6), "-DSCRATCH_SHAPE=%d" % _sh]}, cbmc=unw(50) + NOOOM,
          label="bounded(token text <= 4 bytes quick / 6 thorough (substitutions: 7 / 8, so that NAME:-default forms exist) over all bytes; scratch buffer shape %d of 5: unallocated / empty / 7 bytes / one byte left / full)" % _sh,
          props=_props, cost=80, trusted=LEXTRUST, replay="replay/lex_string.c" if _nm in ("act_dq", "act_sq") else None,
          not_for=["C15"] if _nm in ("act_dq", "act_sq") else (["C01"] if _nm == "act_ccomment" else []),      # the shared obligation "returns the token kind of its form" carries the comment tag too; comments have their own units
          tiers=("quick", "thorough") if (_sh in (0, 2, 4) or (_sh == 1 and _nm == "act_linecomment")) else ("thorough",))

FLEXC = dict(remove=["cfg_yy_create_buffer", "cfg_yypush_buffer_state", "cfg_yypop_buffer_state"], carriers=["carriers/flex_buffers.c"])
HLPTRUST = LEXTRUST + ["flex buffer stack: create/push/pop are a stack (carriers/flex_buffers.c)", "fopen/fclose/strerror: assumed contracts with a ghost open-set"]
U("lex_scan_end", tu="lexer", harness="harness/lex_hlp.c", entry="h_scan_end", func="cfg_scan_fp_end", cbmc=unw(8) + NOOOM + LEAK, label="proof (loop-free; every context, 5 scratch shapes)",
  props=["C08", "C07", "C13", "C03", "C02"], cost=10, trusted=HLPTRUST, **FLEXC)
U("lex_scan_begin", tu="lexer", harness="harness/lex_hlp.c", entry="h_scan_begin", func="cfg_scan_fp_begin", cbmc=unw(8) + NOOOM, label="proof (loop-free)",
  props=["C08", "C13", "C02"], cost=5, trusted=HLPTRUST, **FLEXC)
U("lex_include", tu="lexer", harness="harness/lex_hlp.c", entry="h_lexer_include", func="cfg_lexer_include", cbmc=unw(8) + NOOOM + LEAK,
  label="proof (loop-free; every stack depth 0..10, search path present or not, resolution / open failing or not)",
  props=["C13", "C17", "C07", "C06", "C08", "C02"], cost=10, trusted=HLPTRUST, **FLEXC)
U("lex_abort_in_include", tu="lexer", harness="harness/lex_hlp.c", entry="h_abort_inside_include", func="cfg_scan_fp_begin, cfg_lexer_include, cfg_scan_fp_end (history of three calls)", cbmc=unw(8) + NOOOM,
  label="proof (loop-free): finding unit", props=["C08", "C13", "C07", "C02"], cost=5, trusted=HLPTRUST, **FLEXC)
U("lex_eof", tu="lexer", harness="harness/lex_hlp.c", entry="h_eof_action", func="<<EOF>> rule actions", cbmc=unw(8) + NOOOM + LEAK,
  label="proof (loop-free; every context, every stack depth, own / foreign handle)", props=["C13", "C08", "C07", "C06", "C03", "C02"], cost=10, trusted=HLPTRUST, **FLEXC)

# ------------------------------------------------------------------ schema copy / context life cycle
SCH = dict(harness="harness/schema.c", defs={"quick": ["-DNOPT=2"]})
for _n, _p in ((0, 0), (1, 0), (1, 1), (2, 1), (2, 2), (2, 3)):
    U("dupopt_n%dp%d" % (_n, _p), entry="h_dupopt", func="cfg_dupopt_array, cfg_free_opt_array", cbmc=unw(6) + OOM + LEAK, harness="harness/schema.c",
      defs={"quick": ["-DNOPT=2", "-DSHAPE_N=%d" % _n, "-DSHAPE_P=%d" % _p]},
      label="bounded(%d option(s), optional strings / nested declarations: pattern %d of none|all|alternating|first-default-only; one nesting level; strings 1 byte; any allocation may fail)" % (_n, _p),
      props=["C16", "C18", "C07", "C01", "C02"], cost=100, tiers=("quick", "thorough") if (_n, _p) != (2, 2) else ("thorough",))
U("cfg_init", entry="h_cfg_init", func="cfg_init", cbmc=unw(6) + OOM + LEAK, remove=["cfg_dupopt_array", "cfg_init_defaults", "cfg_free"],
  carriers=["carriers/cfg_dupopt_array.c", "carriers/cfg_init_defaults.c", "carriers/cfg_free_strict.c"], label="proof (loop-free; callees by contract)", props=["C16", "C12", "C01", "C18", "C07", "C02"], cost=10, **SCH)
U("cfg_free", entry="h_cfg_free", func="cfg_free, cfg_free_opt_array, cfg_free_value, cfg_free_searchpath", cbmc=unw(6) + NOOOM + LEAK,
  label="bounded(one option without values; optional fields present or absent; root or section)", props=["C07", "C08", "C02"], cost=20, **SCH)
U("getopt_leaf", entry="h_getopt_leaf", func="cfg_getopt_leaf", cbmc=unw(6) + NOOOM, label="bounded(2 options, names and the name asked for 1..2 bytes over all bytes)", props=["C01", "C11", "C12", "C02"], cost=10, **SCH)
U("addopt", entry="h_addopt", func="cfg_addopt", cbmc=unw(6) + OOM, label="bounded(<= 2 existing keys; any allocation may fail)", props=["C01", "C18", "C02"], cost=30, **SCH)

# ------------------------------------------------------------------ path resolution (C11)
RES = dict(harness="harness/resolve.c")
U("parse_title", entry="h_parse_title", func="parse_title", defs={"quick": ["-DPATHN=5", "-DCFGV_FIXED_DUP=8"], "thorough": ["-DPATHN=7", "-DCFGV_FIXED_DUP=10"]},
  cbmc={"quick": unw(7) + NOOOM + LEAK, "thorough": unw(9) + NOOOM + LEAK},
  label="bounded(qualifier text <= 5 bytes quick / 7 thorough, all bytes; the copy may fail (ghost); fixed-size string copies)", props=["C11", "C18", "C07", "C02"], term_props=["C11", "C02"], cost=40, **RES)
COMBOTXT = ["single section", "multi section, by index", "multi titled section", "multi titled section, case-insensitive", "single titled section"]
for _combo in range(5):
    for _ns in ((0, 1) if _combo in (0, 4) else (0, 1, 2)):
        for _kind, _entry, _fn in (("getopt", "h_getopt_path", "cfg_getopt, cfg_getopt_secidx, cfg_opt_gettsecidx, cfg_getopt_leaf, parse_title"), ("getsec", "h_getsec_path", "cfg_getsec, cfg_getopt_secidx")):
            for _pn, _tiers in ((3, ("quick", "thorough")), (5, ("thorough",))):
                if _pn == 5 and _ns == 0:
                    continue
                if _pn == 5 and _ns == 2 and _combo in (1, 2):
                    _tiers = ("quick", "thorough")      # a qualified step followed by another step, quoted qualifiers: need 5 bytes
                U("%s_path_c%dk%dn%d" % (_kind, _combo, _ns, _pn), entry=_entry, func=_fn,
                  defs={"quick": ["-DPATHN=%d" % _pn, "-DNSEC=%d" % _ns, "-DTREE_COMBO=%d" % _combo, "-DCFGV_FIXED_DUP=8"]}, cbmc=unw(_pn + 2) + NOOOM + LEAK, tiers=_tiers, timeout=1800,
                  label="bounded(path <= %d bytes over all bytes; tree root{a, s{b}}: %s with %d instance(s), titles 1 byte; no allocation failure; fixed-size string copies)" % (_pn, COMBOTXT[_combo], _ns),
                  props=["C11", "C06", "C09", "C07", "C02"] if _kind == "getopt" else ["C11", "C09", "C07", "C02"], term_props=["C11", "C02"], cost=100 if _pn == 3 else 600, replay="replay/resolve.c", **RES)
for _c in range(4):
    U("getopt_array_c%d" % _c, entry="h_getopt_array", func="cfg_getopt_array", defs={"quick": ["-DPATHN=3", "-DCFGV_FIXED_DUP=8", "-DGA_CASE=%d" % _c], "thorough": ["-DPATHN=4", "-DCFGV_FIXED_DUP=8", "-DGA_CASE=%d" % _c]},
      cbmc={"quick": unw(5) + NOOOM + LEAK, "thorough": unw(6) + NOOOM + LEAK},
      label="bounded(path <= 3 bytes quick / 4 thorough; recursion by contract on the extracted copy; %s section %s an instance)" % ("multi" if _c & 2 else "single", "with" if _c & 1 else "without"),
      props=["C14", "C11", "C16", "C07", "C02"], term_props=["C11", "C02"], cost=200, **RES)
for _kind, _entry in (("getopt", "h_getopt_path"), ("getsec", "h_getsec_path")):
    U("%s_deep_c0k1n5" % _kind, entry=_entry, func="cfg_getopt_secidx (three levels)", defs={"quick": ["-DPATHN=5", "-DNSEC=1", "-DTREE_COMBO=0", "-DTREE_DEEP", "-DCFGV_FIXED_DUP=8"]},
      cbmc=unw(7) + NOOOM + LEAK, timeout=1800, label="bounded(path <= 5 bytes over all bytes; three-level tree root{a, s{b, t{c}}}, single sections; no allocation failure)",
      props=["C11", "C09", "C07", "C02"] + (["C06"] if _kind == "getopt" else []), term_props=["C11", "C02"], cost=900, replay="replay/resolve.c", **RES)
U("set_validate", entry="h_set_validate", func="cfg_set_validate_func, cfg_set_validate_func2", defs={"quick": ["-DPATHN=3", "-DCFGV_FIXED_DUP=8"]}, cbmc=unw(5) + NOOOM,
  remove=["cfg_getopt_array"], carriers=["carriers/cfg_getopt_array.c"], label="proof (loop-free; the schema resolver by contract)", props=["C14", "C02"], cost=10, **RES)
U("getopt_array_leaf", entry="h_getopt_array_leaf", func="cfg_getopt_array (nested-call contract)", defs={"quick": ["-DPATHN=3", "-DCFGV_FIXED_DUP=8"]}, cbmc=unw(5) + NOOOM,
  label="bounded(name <= 3 bytes)", props=["C14", "C11", "C02"], term_props=["C11", "C02"], cost=20, **RES)

# ------------------------------------------------------------------ file names (C17)
PTH = dict(harness="harness/paths.c")
PTRUST = ["stat, getpwuid, getpwnam, geteuid, snprintf(%s/%s): assumed contracts with ghost verdicts (harness/paths.c)"]
U("make_fullpath", entry="h_make_fullpath", func="cfg_make_fullpath", defs={"quick": ["-DNAMEN=3", "-DCFGV_FIXED_DUP=8"]}, cbmc=unw(8) + OOM + LEAK,
  label="bounded(directory <= 2 bytes, name <= 3 bytes; allocation may fail)", props=["C17", "C18", "C07", "C02"], cost=20, trusted=PTRUST, **PTH)
U("searchpath", entry="h_searchpath", func="cfg_searchpath (recursion by contract on the extracted copy), cfg_make_fullpath", defs={"quick": ["-DNAMEN=3", "-DCFGV_FIXED_DUP=8"]}, cbmc=unw(8) + NOOOM + LEAK,
  label="bounded(name <= 3 bytes, directory 1 byte; list of any length through the nested-call contract; every stat verdict)", props=["C17", "C13", "C07", "C02"], cost=30, trusted=PTRUST, **PTH)
U("tilde_expand", entry="h_tilde_expand", func="cfg_tilde_expand", defs={"quick": ["-DNAMEN=4", "-DCFGV_FIXED_DUP=8"], "thorough": ["-DNAMEN=6", "-DCFGV_FIXED_DUP=10"]}, cbmc={"quick": unw(8) + OOM, "thorough": unw(10) + OOM},
  nondet_static=r".*confuse\.c:.*", label="bounded(name <= 4 bytes quick / 6 thorough over all bytes; home directory 1 byte; statics of confuse.c arbitrary)", props=["C17", "C18", "C08", "C02"], cost=40, trusted=PTRUST, **PTH)
U("add_searchpath", entry="h_add_searchpath", func="cfg_add_searchpath", defs={"quick": ["-DNAMEN=2", "-DCFGV_FIXED_DUP=8"]}, cbmc=unw(8) + OOM + LEAK,
  label="bounded(directory <= 2 bytes; allocation may fail)", props=["C17", "C18", "C16", "C07", "C02", "C13"], cost=20, trusted=PTRUST, **PTH)

# ------------------------------------------------------------------ printing (C19 C05)
PRT = dict(harness="harness/print.c", defs={"quick": []})
PRTRUST = ["fprintf: assumed contract (writes literal text, %s, %c, %ld, %f as C11 specifies); digits of numbers are libc's"]
U("nprint_str", replay="replay/print_layout.c", entry="h_nprint_str", func="cfg_opt_nprint_var (strings)", cbmc=unw(68) + NOOOM, label="bounded(string value <= 3 bytes over all bytes)", props=["C05", "C19", "C02"], cost=10, trusted=PRTRUST,
  carriers=["carriers/print_carriers.c"], **PRT)
U("nprint_num", replay="replay/print_layout.c", entry="h_nprint_num", func="cfg_opt_nprint_var (numbers, booleans)", cbmc=unw(68) + NOOOM, label="proof (loop-free)", props=["C05", "C19", "C02"], cost=10, trusted=PRTRUST,
  carriers=["carriers/print_carriers.c"], **PRT)
U("print_opt", replay="replay/print_layout.c", entry="h_print_opt", func="cfg_opt_print_pff_indent, cfg_indent", cbmc=unw(68) + NOOOM, remove=["cfg_opt_nprint_var", "cfg_print_pff_indent"],
  carriers=["carriers/print_carriers.c"], defs={"quick": ["-DCFGV_CARRY_NPRINT", "-DCFGV_CARRY_PRINTCFG"]},
  label="bounded(14 literal option shapes: type x list/title/annotation flags x <= 3 values; callback / annotation present or absent; depth 0..2)", props=["C19", "C05", "C15", "C16", "C02"], cost=60,
  trusted=PRTRUST, harness="harness/print.c")
U("print_comment", replay="replay/print_layout.c", entry="h_print_comment", func="cfg_opt_print_pff_indent", cbmc=unw(68) + NOOOM, remove=["cfg_opt_nprint_var", "cfg_print_pff_indent"],
  carriers=["carriers/print_carriers.c"], defs={"quick": ["-DCFGV_CARRY_NPRINT", "-DCFGV_CARRY_PRINTCFG"]},
  label="bounded(annotation <= 3 bytes over all bytes, depth 0..2)", props=["C15", "C05", "C19", "C02"], cost=10, trusted=PRTRUST, harness="harness/print.c")
U("print_cfg", replay="replay/print_layout.c", entry="h_print_cfg", func="cfg_print_pff_indent", cbmc=unw(68) + NOOOM, remove=["cfg_opt_print_pff_indent"], carriers=["carriers/print_carriers.c"],
  defs={"quick": ["-DCFGV_CARRY_PRINTOPT"]}, label="bounded(<= 3 options; every verdict of own / inherited filter; any depth)", props=["C19", "C16", "C02"], cost=20, trusted=PRTRUST, harness="harness/print.c")
U("print_indent", replay="replay/print_layout.c", entry="h_indent", func="cfg_indent", cbmc=unw(68) + NOOOM, label="bounded(depth 0..24)", props=["C19", "C05", "C02"], cost=10, trusted=PRTRUST,
  carriers=["carriers/print_carriers.c"], **PRT)
U("print_hooks", replay="replay/print_layout.c", entry="h_print_hooks", func="cfg_opt_set_print_func, cfg_set_print_filter_func", cbmc=unw(68) + NOOOM, label="proof (loop-free)", props=["C19", "C02"], cost=5,
  carriers=["carriers/print_carriers.c"], **PRT)

U("roundtrip_str", tu="spec", harness="harness/roundtrip.c", entry="h_roundtrip_str", func="lemma: spec_decode_dq(spec_print_str(s)) == s", defs={"quick": ["-DRTN=3"], "thorough": ["-DRTN=4"]},
  cbmc={"quick": unw(12) + NOOOM, "thorough": unw(14) + NOOOM}, label="bounded(string <= 3 bytes quick / 4 thorough over bytes 1..255); lemma over spec functions", props=["C05"], cost=60)
U("roundtrip_title", tu="spec", harness="harness/roundtrip.c", entry="h_roundtrip_title", func="lemma: spec_decode_dq('\"' t '\"') == t", defs={"quick": ["-DRTN=3"], "thorough": ["-DRTN=4"]},
  cbmc={"quick": unw(12) + NOOOM, "thorough": unw(14) + NOOOM}, label="bounded(title <= 3 bytes quick / 4 thorough); lemma over spec functions", props=["C05"], cost=60)

# ------------------------------------------------------------------ entry points and glue
ENT = dict(harness="harness/entry.c", defs={"quick": ["-DCFGV_FIXED_DUP=8"]})
ENTC = dict(remove=["cfg_parse_internal", "cfg_opt_setnint", "cfg_opt_setnfloat", "cfg_opt_setnbool", "cfg_opt_setnstr", "cfg_setopt", "cfg_searchpath", "cfg_tilde_expand", "cfg_getopt"],
            carriers=["carriers/entry_carriers.c", "carriers/resolvers.c", "carriers/cfg_getopt.c"])
ENTTRUST = ["fopen/fmemopen/fclose: assumed contracts with a ghost open-set"]
U("parse_fp", entry="h_parse_fp", func="cfg_parse_fp", cbmc=unw(8) + NOOOM + LEAK, label="proof (loop-free; parser core and scanner helpers by contract; the copy of the default name may fail)",
  props=["C08", "C13", "C01", "C06", "C18", "C07", "C02"], cost=10, trusted=ENTTRUST, **ENT, **ENTC)
U("parse_buf", entry="h_parse_buf", func="cfg_parse_buf, cfg_parse_fp", cbmc=unw(8) + NOOOM + LEAK, label="bounded(buffer <= 2 bytes); callees by contract", props=["C01", "C06", "C07", "C08", "C18", "C02"], cost=10,
  trusted=ENTTRUST, **ENT, **ENTC)
U("parse_file", entry="h_parse_file", func="cfg_parse, cfg_parse_fp", cbmc=unw(8) + NOOOM + LEAK, label="proof (loop-free; resolvers, file layer and parser core by contract)", props=["C17", "C07", "C01", "C06", "C13", "C02"], cost=10,
  trusted=ENTTRUST, **ENT, **ENTC)
U("cfg_include", entry="h_cfg_include", func="cfg_include", cbmc=unw(8) + NOOOM, label="proof (loop-free)", props=["C13", "C14", "C06", "C02"], cost=5, **ENT, **ENTC)
ENTC2 = dict(remove=["cfg_parse_internal", "cfg_searchpath", "cfg_tilde_expand", "cfg_getopt"], carriers=["carriers/entry_carriers_min.c", "carriers/resolvers.c", "carriers/cfg_getopt.c"])
U("call_function", entry="h_call_function", func="call_function, cfg_free_value", cbmc=unw(8) + OOM + LEAK, label="bounded(<= 2 arguments; the argument vector's allocation may fail)", props=["C14", "C07", "C18", "C01", "C02"], cost=20,
  **ENT, **ENTC2)
U("init_defaults", entry="h_init_defaults", func="cfg_init_defaults", cbmc=unw(8) + NOOOM, label="bounded(one option; 14 literal kinds: type x LIST/NODEFAULT/MULTI x simple x textual default; callees by contract)",
  props=["C01", "C08", "C07", "C02"], cost=30, trusted=ENTTRUST, **ENT, **ENTC)
U("init_defaults_names", entry="h_init_defaults_names", func="cfg_init_defaults", cbmc=unw(8) + NOOOM, label="bounded(two options, names 1 byte over all bytes, either case rule)",
  props=["C01", "C06", "C02"], cost=5, trusted=ENTTRUST, **ENT, **ENTC)
U("init_defaults_abort", entry="h_init_defaults_abort", func="cfg_init_defaults (abort path)", cbmc=unw(8) + NOOOM, expect_canary=False, label="proof (loop-free): finding unit", props=["C18", "C02"], cost=5,
  trusted=ENTTRUST, **ENT, **ENTC)
U("addtsec", replay="replay/store_sections.c", entry="h_addtsec", func="cfg_addtsec, cfg_gettsec, cfg_opt_gettsec, cfg_opt_gettsecidx", cbmc=unw(8) + NOOOM, label="bounded(one existing instance; titles 1 byte over all bytes; 4 case-rule combinations; store by contract)",
  props=["C09", "C10", "C06", "C18", "C02"], cost=20, **ENT, **ENTC)

for _sc in ("assign", "list", "append", "call", "emptysec", "sec", "titled", "nested", "twoassign"):
    U("parse_script_" + _sc, entry="h_script_" + _sc, cbmc=unw(20) + NOOOM, defs={"quick": []},
      label="bounded(one concrete token script: undeclared item '%s' followed by i = 5; nested activations run for real)" % _sc, props=["C12", "C06", "C02"], cost=10, **PARSEC)

# ------------------------------------------------------------------ "must succeed" twins (no allocation failure)
for _n in ("opt_setcomment", "addval_n0", "addval_n1", "setmulti_n0m2", "setmulti_n1m1", "setnint_byname_n1", "setnstr_byname", "setnfloat_byname", "setopt_pcb_int_n1", "setopt_pcb_fb_n1",
           "setopt_ptr_n1", "setopt_sec_n0", "dupopt_n1p1", "dupopt_n2p1", "cfg_init", "addopt", "make_fullpath", "tilde_expand", "add_searchpath", "call_function"):
    nofail_twin(_n, tiers=("quick", "thorough"))

# ------------------------------------------------------------------ the by-name convenience layer
WRAPC = dict(harness="harness/wrappers.c", defs={"quick": []})
WSET = ["cfg_getopt", "cfg_opt_setnint", "cfg_opt_setnfloat", "cfg_opt_setnbool", "cfg_opt_setnstr", "cfg_opt_setcomment", "cfg_opt_rmnsec", "cfg_opt_rmtsec", "cfg_opt_setmulti",
        "cfg_opt_set_print_func", "cfg_opt_print_pff_indent", "cfg_print_pff_indent", "cfg_getopt_secidx"]
U("wrap_getters", entry="h_wrap_getters", func="cfg_getnint, cfg_getint, cfg_getnfloat, cfg_getfloat, cfg_getnbool, cfg_getbool, cfg_getnstr, cfg_getstr, cfg_getnptr, cfg_getptr, cfg_getnsec, cfg_gettsec, cfg_size, cfg_getcomment, cfg_opt_getstr",
  cbmc=unw(6) + NOOOM, remove=["cfg_getopt"], carriers=["carriers/cfg_getopt.c"], label="proof (loop-free wrappers; the name resolver by contract; 10 literal option shapes, any index)",
  props=["C09", "C01", "C11", "C15", "C02"], cost=10, **WRAPC)
U("wrap_setters", entry="h_wrap_setters", func="cfg_setint, cfg_setnint, cfg_setfloat, cfg_setnfloat, cfg_setnbool, cfg_setbool, cfg_setstr, cfg_setnstr, cfg_setcomment, cfg_rmnsec, cfg_rmsec, cfg_rmtsec, cfg_setmulti, cfg_set_print_func",
  cbmc=unw(6) + NOOOM, remove=WSET, carriers=["carriers/cfg_getopt.c", "carriers/wrapper_carriers.c"], label="proof (loop-free wrappers; resolvers and opt-level operations by contract)",
  props=["C09", "C10", "C11", "C14", "C15", "C19", "C16", "C07", "C02"], cost=10, **WRAPC)
U("wrap_print", replay="replay/print_layout.c", entry="h_wrap_print", func="cfg_print, cfg_print_indent, cfg_opt_print, cfg_opt_print_indent", cbmc=unw(6) + NOOOM, remove=WSET, carriers=["carriers/cfg_getopt.c", "carriers/wrapper_carriers.c"],
  label="proof (loop-free wrappers; the printers by contract)", props=["C19", "C05", "C02"], cost=5, **WRAPC)
U("null_opt", entry="h_null_opt", func="cfg_opt_getnint, cfg_opt_getnfloat, cfg_opt_getnbool, cfg_opt_getnstr, cfg_opt_getnptr, cfg_opt_getnsec, cfg_opt_gettsec, cfg_opt_size, cfg_opt_getcomment, cfg_opt_name, cfg_opt_setnint, cfg_opt_setnfloat, cfg_opt_setnbool, cfg_opt_setnstr, cfg_opt_setcomment, cfg_opt_setmulti, cfg_opt_rmnsec, cfg_opt_rmtsec, cfg_free_value, cfg_setopt, call_function",
  cbmc=unw(6) + NOOOM, label="proof (loop-free paths: the NULL option an unknown name resolves to)", props=["C09", "C10", "C14", "C02"], cost=5, **WRAPC)
U("wrap_enum", entry="h_wrap_enum", func="cfg_numopts, cfg_num, cfg_getnopt, cfg_name", cbmc=unw(6) + NOOOM, label="bounded(<= 3 declared options)", props=["C16", "C01", "C02"], cost=5, **WRAPC)

# ------------------------------------------------------------------ S1: contracts enforced by DFCC (frames)
# (contract::cfg_addval is written in the same header, but its DFCC run did not finish in 300 s in the build phase; cfg_addval is decided by the S2 units addval_n*)
for _f, _e, _props in (("cfg_set_error_function", "h_dfcc_errfunc", ["C06", "C16", "C02"]),
                       ("cfg_set_print_filter_func", "h_dfcc_pff", ["C19", "C16", "C02"]), ("cfg_opt_set_print_func", "h_dfcc_pf", ["C19", "C16", "C02"]),
                       ("cfg_opt_size", "h_dfcc_size", ["C09", "C02"]), ("cfg_title", "h_dfcc_title", ["C09", "C02"]), ("cfg_opt_getnint", "h_dfcc_getnint", ["C09", "C02"])):
    U("dfcc_" + _f, harness="harness/dfcc.c", entry=_e, func=_f, style="S1", defs={"quick": []}, cbmc=OOM, dfcc={"enforce": [_f]}, expect_canary=False, no_slice=False,
      label="proof (contract in CBMC's contract language enforced by goto-instrument --dfcc, assigns clause = frame; <= 3 values where a slot array is involved)",
      props=_props, cost=30)

# loops closed by loop contracts: the unbounded unit (SMT back end, quantified precondition, arrays of up to 1024 options) and its
# quantifier-free twin on the SAT back end (arrays of up to 3 options), which is the one that yields a counterexample
for _f, _e in (("cfg_numopts", "h_dfcc_numopts"), ("cfg_getnopt", "h_dfcc_getnopt")):
    U("dfcc_loop_" + _f, harness="harness/dfcc.c", entry=_e, func=_f, style="S1", defs={"quick": []}, cbmc=NOOOM, backend="z3",
      dfcc={"enforce": [_f], "loops": True}, expect_canary=False, no_slice=False, require_obligations=[r"loop_invariant_step", r"loop_decreases", r"postcondition"],
      label="proof (function contract + loop contract (invariant, frame, variant) enforced by goto-instrument --dfcc --apply-loop-contracts; option arrays of every length up to 1024; SMT back end z3)",
      props=["C16", "C01", "C02"], cost=20)
    U("dfcc_loop_" + _f + "_twin", harness="harness/dfcc.c", entry=_e, func=_f, style="S1", defs={"quick": ["-DCFGV_TWIN"]}, cbmc=NOOOM,
      dfcc={"enforce": [_f], "loops": True}, expect_canary=False, no_slice=False, require_obligations=[r"loop_invariant_step", r"loop_decreases", r"postcondition"],
      label="bounded(quantifier-free twin of the loop-contract unit: option arrays of at most 3 entries; SAT back end, yields counterexamples)",
      props=["C16", "C01", "C02"], cost=5)

U("dfcc_loop_cfg_indent", harness="harness/dfcc.c", entry="h_dfcc_indent", func="cfg_indent", style="S1", defs={"quick": ["-DCFGV_DFCC_INDENT"]}, cbmc=NOOOM,
  dfcc={"enforce": ["cfg_indent"], "loops": True}, expect_canary=False, no_slice=False, require_obligations=[r"loop_invariant_step", r"loop_decreases", r"postcondition"],
  label="proof (function contract + loop contract (invariant, frame, variant) enforced by goto-instrument --dfcc --apply-loop-contracts; EVERY depth 0 .. 2^29, quantifier-free, SAT back end; the stream is a ghost counter fed by an fprintf carrier that checks stream and format)",
  props=["C19", "C05", "C02"], cost=10)

U("dfcc_loop_cfg_getopt_leaf", harness="harness/dfcc.c", entry="h_dfcc_leaf", func="cfg_getopt_leaf", style="S1", defs={"quick": ["-DCFGV_DFCC_LEAF"]}, cbmc=NOOOM, backend="z3",
  dfcc={"enforce": ["cfg_getopt_leaf"], "loops": True}, expect_canary=False, no_slice=False, require_obligations=[r"loop_invariant_step", r"loop_decreases", r"postcondition"],
  label="proof (function contract + loop contract enforced by goto-instrument --dfcc --apply-loop-contracts; option arrays of every length up to 1024; string equality abstract: arbitrary verdict per entry, supplied by strcmp / strcasecmp carriers that check their arguments; SMT back end z3)",
  props=["C01", "C11", "C12", "C02"], cost=30)
U("dfcc_loop_cfg_getopt_leaf_twin", harness="harness/dfcc.c", entry="h_dfcc_leaf", func="cfg_getopt_leaf", style="S1", defs={"quick": ["-DCFGV_DFCC_LEAF", "-DCFGV_TWIN"]}, cbmc=NOOOM,
  dfcc={"enforce": ["cfg_getopt_leaf"], "loops": True}, expect_canary=False, no_slice=False, require_obligations=[r"loop_invariant_step", r"loop_decreases", r"postcondition"],
  label="bounded(quantifier-free twin of dfcc_loop_cfg_getopt_leaf: option arrays of at most 3 entries; SAT back end, yields counterexamples)",
  props=["C01", "C11", "C12", "C02"], cost=5)

U("dfcc_loop_cfg_print_pff_indent", harness="harness/dfcc.c", entry="h_dfcc_printcfg", func="cfg_print_pff_indent", style="S1", defs={"quick": ["-DCFGV_DFCC_PRINTCFG"]}, cbmc=NOOOM, backend="z3",
  remove=["cfg_opt_print_pff_indent"], carriers=["carriers/dfcc_print_carriers.c"],
  dfcc={"enforce": ["cfg_print_pff_indent"], "loops": True}, expect_canary=False, no_slice=False, require_obligations=[r"loop_invariant_step", r"loop_decreases", r"postcondition"],
  label="proof (function contract + loop contract enforced by goto-instrument --dfcc --apply-loop-contracts; option arrays of every length up to 1024; filter verdicts and option-printer results arbitrary per entry, supplied by monitor carriers; SMT back end z3)",
  props=["C19", "C16", "C02"], cost=30)
U("dfcc_loop_cfg_print_pff_indent_twin", harness="harness/dfcc.c", entry="h_dfcc_printcfg", func="cfg_print_pff_indent", style="S1", defs={"quick": ["-DCFGV_DFCC_PRINTCFG", "-DCFGV_TWIN"]}, cbmc=NOOOM,
  remove=["cfg_opt_print_pff_indent"], carriers=["carriers/dfcc_print_carriers.c"],
  dfcc={"enforce": ["cfg_print_pff_indent"], "loops": True}, expect_canary=False, no_slice=False, require_obligations=[r"loop_invariant_step", r"loop_decreases", r"postcondition"],
  label="bounded(quantifier-free twin of dfcc_loop_cfg_print_pff_indent: option arrays of at most 3 entries; SAT back end, yields counterexamples)",
  props=["C19", "C16", "C02"], cost=5)

for _f, _e in (("cfg_print_indent", "h_dfcc_print_indent"), ("cfg_print", "h_dfcc_print")):
    U("dfcc_modular_" + _f, harness="harness/dfcc.c", entry=_e, func=_f, style="S1", defs={"quick": ["-DCFGV_DFCC_PRINTCFG"]}, cbmc=NOOOM, backend="z3",
      dfcc={"enforce": [_f], "replace": ["cfg_print_pff_indent"]}, expect_canary=False, no_slice=False, require_obligations=[r"postcondition", r"precondition"],
      label="proof (modular: enforced against its own contract with the call to cfg_print_pff_indent REPLACED by contract::cfg_print_pff_indent - precondition asserted at the call site, postcondition assumed, body not looked at; SMT back end z3)",
      props=["C19", "C02"], cost=5)
    U("dfcc_modular_" + _f + "_twin", harness="harness/dfcc.c", entry=_e, func=_f, style="S1", defs={"quick": ["-DCFGV_DFCC_PRINTCFG", "-DCFGV_TWIN"]}, cbmc=NOOOM,
      dfcc={"enforce": [_f], "replace": ["cfg_print_pff_indent"]}, expect_canary=False, no_slice=False, require_obligations=[r"postcondition", r"precondition"],
      label="bounded(quantifier-free twin of dfcc_modular_%s: option arrays of at most 3 entries; SAT back end, yields counterexamples)" % _f, props=["C19", "C02"], cost=5)

U("dfcc_modular_cfg_num", harness="harness/dfcc.c", entry="h_dfcc_num", func="cfg_num", style="S1", defs={"quick": []}, cbmc=NOOOM, backend="z3",
  dfcc={"enforce": ["cfg_num"], "replace": ["cfg_numopts"]}, expect_canary=False, no_slice=False, require_obligations=[r"postcondition", r"precondition"],
  label="proof (contract of cfg_num enforced with the call to cfg_numopts replaced by contract::cfg_numopts: caller checked against the callee's contract, not its body; option arrays up to 1024; z3)",
  props=["C16", "C01", "C02"], cost=20)

U("dfcc_modular_cfg_num_twin", harness="harness/dfcc.c", entry="h_dfcc_num", func="cfg_num", style="S1", defs={"quick": ["-DCFGV_TWIN"]}, cbmc=NOOOM,
  dfcc={"enforce": ["cfg_num"], "replace": ["cfg_numopts"]}, expect_canary=False, no_slice=False, require_obligations=[r"postcondition", r"precondition"],
  label="bounded(quantifier-free twin of dfcc_modular_cfg_num: option arrays of at most 3 entries; SAT back end, yields counterexamples)", props=["C16", "C01", "C02"], cost=5)

# ------------------------------------------------------------------ per-property text for MANIFEST / evidence
HOOK_COMMITS = ["b37b503", "1902c5d", "f69ef3d", "c82b62b", "1c0fce9"]
NOT_APPLICABLE = {}
STEP_NOTE = ("The parser's token loop is covered for token sequences of every length by the loop-invariant rule applied by hand "
             "(entry hook CFG_VERIF_PI_ENTRY; base + step units); soundness of that rule rests on the hook handing over every loop-carried local "
             "(a renamed/added local breaks compilation -> exit 2) and on the carriers' havoc being as wide as the callees' effects. ")
PROPERTY_INFO = {
    "C01": {"level": "other",
            "text": "cfg_parse_internal() refines the reference token automaton (spec/grammar_spec.h) - proved for every state / token / flag word / callee verdict by the base+step units of the hand-applied loop-invariant rule, every nesting depth through the nested-call contract; "
                    "cfg_setopt() arms (string, parse callbacks, section arm with title merge / duplicate refusal / per-instance copies), cfg_init_defaults (14 option kinds), cfg_addopt, cfg_getopt_leaf, cfg_init, cfg_parse_fp/buf/file checked against their contracts on bounded shapes.",
            "note": STEP_NOTE + "End of input inside a section body is part of the reference automaton since fix e5f6c41 (rejected with a diagnostic). Not decided: the composition scanner->parser->getters (argued in DESIGN 5.C01)."},
    "C02": {"level": "other",
            "text": "Every unit of every property runs with CBMC's pointer, bounds, overflow, double-free and use-after-free obligations on the real code; in addition: the scanner tables never leave their bounds and always advance (L-DFA), the default ECHO rule (stdout) is unreachable, every returned token carries a non-NULL text, the scratch buffer stays well-formed through growth, termination of every bounded loop (unwinding assertions), abort()/exit() sites are finding units.",
            "note": "Memory safety inside flex's buffer management and driver loop is assumed; stack usage is decided only as 'recursion depth is unbounded' (recorded finding); string walks are bounded (see units)."},
    "C03": {"level": "other",
            "text": "The generated scanner tables are proved to simulate four hand-written reference automata (spec/lex_spec.h) for every state pair and every byte (L-DFA: which rule fires and how much it matches, for inputs of every length); every rule action is checked against the reference decoding of its lexical form for token texts up to 4 (quick) / 6 (thorough) bytes and 5 scratch-buffer shapes (L-ACT): named / octal / hex escapes, continuation lines, single-quote rules, ${NAME} / ${NAME:-default} with a ghost environment, comments.",
            "note": "The flex driver loop (longest match, earliest rule, back-up) and sscanf/getenv/isspace are assumed contracts; the witness relation is regenerated and re-checked on every run."},
    "C04": {"level": "other",
            "text": "cfg_setopt() INT/FLOAT/BOOL arms and cfg_parse_boolean() under contract; postconditions taken from the statement (spec/num_spec.h). "
                    "Integer and boolean tokens: every token up to 4 (quick) / 6 (thorough) bytes over all byte values, every entry errno - bounded stand-in. "
                    "Range of long, float numerals and errno independence for tokens of any length: proved over the ghost facts of an abstract strtol/strtod carrier.",
            "note": "strtol/strtod/strcasecmp/strspn are assumed contracts (C11).",
            "explanation": "cfg_setopt() INT/FLOAT/BOOL arms and cfg_parse_boolean() checked against spec/num_spec.h by CBMC: every token up to the stated length over all 256 byte values, every entry errno, every flag word.",
            "assumptions": []},
    "C05": {"level": "other",
            "text": "Printer side: cfg_opt_nprint_var and cfg_opt_print_pff_indent produce exactly the reference text (spec/print_spec.h; strings: quote and backslash escaped; %ld / %f pinned). Scanner side: L-DFA / L-ACT give scan == reference decoding. Lemma units over the spec functions: decode_dq(print_str(s)) == s and the same for titles, for every byte string up to 3 (quick) / 4 (thorough) bytes; the failing families (${...} in values, quotes / backslashes in titles) are recorded findings.",
            "note": "%f / strtod agreement is libc's (assumed: 'to the printed precision'); whole-tree round trip and idempotence are compositions argued from the leaf lemmas and the layout contract."},
    "C06": {"level": "other",
            "text": "Parser: in every state and for every token a rejection is reported in the same iteration through the current context's error function, or has one of the silent causes (callback veto, allocation failure); accepted steps deliver no diagnostic; sections inherit file/line/error function. Scanner: every rule action advances cfg->line by exactly the number of newline bytes in its token (all forms), the error token is returned exactly with a diagnostic; include / end-of-include save and restore file name and line; cfg_parse_fp maps rejection to the parse-error code.",
            "note": STEP_NOTE + "The text of messages is not checked."},
    "C07": {"level": "other",
            "text": "Ownership contracts with CBMC's leak / double-free / use-after-free obligations on closed harnesses: cfg_free_value (every type, callbacks), cfg_free, cfg_free_opt_array (through the copy units), cfg_addval, cfg_opt_setcomment, cfg_opt_setmulti (both outcomes), cfg_opt_rmnsec/rmtsec (shared search path detached, slot released), cfg_setopt pointer and section arms, call_function, every exit of one parser iteration and every continuing one (loop-head ownership: once the pending annotation, the pending title and the collected call arguments are released nothing is left allocated), release of the replaced string in both string setters, release of the half-built instance on every failure path of the section arm, file handles of include / end-of-include / cfg_parse / cfg_parse_buf / default parsing (ghost open-set).",
            "note": "All shapes bounded (<= 3 values, one nesting level; nested cfg_free is a contract carrier). " + STEP_NOTE},
    "C08": {"level": "other",
            "text": "Reset invariant: cfg_scan_fp_end() leaves the scanner quiescent (top-level context, no scratch buffer, one source popped) from every state; cfg_parse_fp / cfg_parse_buf / cfg_parse / default parsing push and pop exactly one source on every outcome; a failed include costs no include level; cfg_free(root) tears the scanner down - checked with every static of confuse.c arbitrary (no hidden history); errno independence of conversions (C04).",
            "note": "The relational claim (same result as in a fresh process) follows from the reset invariant plus determinism (argued). A parse aborted inside an included file leaves the include entry (recorded in DESIGN 7). flex's buffer stack is an assumed contract."},
    "C09": {"level": "other",
            "text": "Every setter / list / bulk / section add-remove function is checked against the abstract store on every well-formed option state with <= 2 (quick) / 3 (thorough) values: whole-view postconditions (other values keep place and content), wrong type / illegal index / unknown name fail without effect. The by-name layer (30 wrappers) is the opt-level operation on the option the name resolves to (resolver and opt-level mutators by contract). Without allocation failure a legal call must succeed and the value must be stored (must-succeed twins); with it, a call that reports failure has stored nothing.",
            "note": "Operation sequences are covered as 'from every well-formed state, one call' (each call re-establishes well-formedness); flag words are literal representatives of every RESET/LIST/MULTI combination."},
    "C10": {"level": "other",
            "text": "Failure frames: for each refusing call (bulk set with a failing element at every position, vetoed by-name setters, wrong type / illegal index, unconvertible text on a set scalar, removing a missing section, duplicate title) the option is compared bit-for-bit with a snapshot (values, count, order, annotation pointer, flags).",
            "note": "Bounded shapes (<= 2/3 values). cfg_setopt on a list / empty / default-holding option appends its slot before converting (DESIGN 7)."},
    "C11": {"level": "other",
            "text": "parse_title against its reference for every qualifier text up to 5/7 bytes; cfg_getopt / cfg_getsec (cfg_getopt_secidx, cfg_opt_gettsecidx, cfg_getopt_leaf) against step-by-step navigation (spec_resolve) on two- and three-level trees for every path up to 3 (all flag combinations) / 5 bytes, including termination (unwinding assertions) and 'nothing changes'; cfg_getopt_array through its extracted copy with the recursion cut by contract. cfg_getopt_leaf additionally under a function + loop contract enforced by goto-instrument --dfcc --apply-loop-contracts for option arrays of every length up to 1024 (first entry whose name equals the name asked for, case rule of the context; string equality abstract, z3; SAT twin for counterexamples).",
            "note": "Bounded: longer paths / deeper trees are not seen. Index qualifiers in octal/hex/sign spelling, duplicated separators in the middle and text glued to a closing quote are not judged (statement silent)."},
    "C12": {"level": "other",
            "text": "Unknown-name detection and the skip states 10-15 are checked in the step unit (no store / lookup / callback / diagnostic while skipping; nested activation answers only continue/reject; sections inherit the flag, cfg_init sets it before defaults). Whole undeclared items are checked on 9 concrete token scripts run through the real function: assignment, list and call are skipped as the language defines; append and every section form are recorded findings.",
            "note": STEP_NOTE + "The skipper's transition table is pinned; scripts are single concrete inputs, not a proof over all items."},
    "C13": {"level": "other",
            "text": "Bookkeeping and failure behaviour of includes: cfg_include (argument count), cfg_lexer_include (depth limit, resolution like a top-level name, unresolved / unopenable = reported error with no level lost, saved name/line/handle, line 1), the end-of-input action (restores name and line, closes exactly the handle the include opened, pops one source), cfg_scan_fp_begin/end; cfg_searchpath only ever yields regular files.",
            "note": "The textual splice itself (tokens of the included file appear in place) is flex's buffer stack: assumed. A directory without search path and an abort inside an include are recorded findings."},
    "C14": {"level": "other",
            "text": "Callback contracts: cfg_setopt() calls the value-parsing callback at most once per value with exactly the token text and stores what it produced, a non-zero result fails the assignment; the parser runs the validation callback right after each store in states 2,3,4,5 and a veto ends the parse with no later action; call_function passes exactly the collected arguments in order; by-name setters honour the pre-set validation callback (veto, rewrite); cfg_getopt_array resolves registration paths to the template of multi sections.",
            "note": STEP_NOTE},
    "C15": {"level": "other",
            "text": "Scanner: each comment style yields exactly one comment token with the trimmed text and no line drift, comment forms exist only at top level (L-DFA). Grammar: the reference automaton makes a comment token transparent in every state; proved for the name state and the skipper's waiting states, the other states are a recorded finding; the pending annotation is copied, attached right after the first stored value and released on every exit; cfg_opt_setcomment and the annotation line of the printer under contract.",
            "note": STEP_NOTE},
    "C16": {"level": "other",
            "text": "cfg_dupopt_array: the copy is fresh, every owned string a private copy (NULL iff NULL), nested declarations copied not shared, scalars and callbacks carried over, the source untouched also when the copy fails half-way; cfg_free_opt_array releases exactly the copy; cfg_init works on the copy; the section arm gives every instance its own copy of the sub-options and private name / title / file name; setters store private copies. cfg_numopts / cfg_getnopt: function contracts with loop contracts (invariant, frame, variant) enforced by goto-instrument --dfcc --apply-loop-contracts for option arrays of every length up to 1024 (z3), cfg_num against contract::cfg_numopts (--replace-call-with-contract).",
            "note": "Bounded(<= 2 options, one nesting level) except the option-array loops. 'Interleavings of two contexts' are covered as: no function writes outside the objects reachable from its own arguments (frames of the store units), not as a two-run experiment."},
    "C17": {"level": "other",
            "text": "cfg_searchpath (extracted copy, recursion by contract): absolute names bypass the list and must be regular files, relative names are taken from the oldest directory first, directories / missing files never match, results fresh; cfg_make_fullpath; cfg_tilde_expand for every name up to 4/6 bytes with the passwd database as ghost (exact account name, NUL-terminated; unknown user unchanged) and every static arbitrary (no cached answers); cfg_add_searchpath prepends; cfg_parse and cfg_lexer_include resolve the same way.",
            "note": "The real file system and passwd database are assumed contracts."},
    "C18": {"level": "other",
            "text": "Every unit runs with any allocation free to fail (CBMC 6 default) unless stated: failure-side postconditions on cfg_addval, cfg_opt_getval, setters, cfg_opt_setnstr (old string kept), cfg_opt_setcomment, cfg_setopt arms, cfg_dupopt_array (source intact, nothing leaked), cfg_init, cfg_addopt, call_function, parse_title, cfg_parse_fp/buf; the section arm's half-built instance and abort() on an unparsable default are recorded findings.",
            "note": "Any subset of allocations may fail, which contains the single-fault enumeration; bounded shapes; scanner-internal allocations out of scope (as the property says)."},
    "C19": {"level": "other",
            "text": "cfg_print_pff_indent: every option the effective filter accepts is handed to the option printer exactly once in declaration order, with the effective filter (own, else inherited) and the same depth, nothing else; cfg_opt_print_pff_indent: reference layout for 14 option shapes incl. sections (header, body once per instance one level deeper under the same filter, footer), lists, unset scalars commented out, print callback replacing the value format for exactly that option; the hook setters. Unbounded (goto-instrument --dfcc --apply-loop-contracts): cfg_print_pff_indent's loop for option arrays of every length up to 1024 with arbitrary filter verdicts (monitor carriers for the filters and the option printer, z3 + SAT twin), cfg_indent for every depth up to 2^29 (SAT), cfg_print / cfg_print_indent modularly against contract::cfg_print_pff_indent (--replace-call-with-contract).",
            "note": "Bounded(<= 3 options / values); byte-exact layout only as far as spec/print_spec.h fixes it."},
}
