#!/usr/bin/env python3
"""writes /verif/MANIFEST.json from units.py (PROPERTY_INFO) - run after changing the registry"""
import json, os, sys
V = os.path.dirname(os.path.dirname(os.path.abspath(__file__)))
sys.path.insert(0, V)
from units import UNITS, PROPERTY_INFO, TRUSTED_BASE, NOT_APPLICABLE, HOOK_COMMITS
props = [json.loads(l) for l in open(os.path.join(V, "properties.jsonl"))]
checks = []
na = []
for p in props:
    pid = p["id"]
    info = PROPERTY_INFO.get(pid)
    if not info or not info.get("claimed", True):
        na.append({"property_id": pid, "reason": NOT_APPLICABLE.get(pid, "no check built yet for this property")})
        continue
    us = [u for u in UNITS if pid in u["props"]]
    bounded = [u["name"] for u in us if not u["label"].startswith("proof")]
    checks.append({
        "property_id": pid,
        "quick_cmd": "./check %s --tier quick" % pid,
        "thorough_cmd": "./check %s --tier thorough" % pid,
        "evidence_file": "/verif/evidence/%s.json" % pid,
        "replay_cmd_template": "./check %s --replay {path}" % pid,
        "engine": "cbmc-contracts",
        "level_claimed": {"category": info.get("level", "other"), "text": info["text"], "design_ref": info.get("design_ref", "DESIGN.md section 5 (%s)" % pid)},
        "level_note": info.get("note", "") + " Trusted base: " + "; ".join(TRUSTED_BASE) + (". Bounded stand-ins (never counted as proved): " + ", ".join(bounded) if bounded else ""),
        "technique": info.get("technique", "contract checking of the real C functions with CBMC (closed-harness pre/post contracts, callee contracts as carriers)"),
    })
m = {"version": 1, "setup_cmd": "./setup.sh",
     "hooks": {"guard": "MARTINH_LIBCONFUSE_VERIF",
               "enable": "-DMARTINH_LIBCONFUSE_VERIF on the goto-cc command line of the checks only; native replay builds and the test-suite never define it",
               "baseline_off_cmd": "/verif/tools/run_baseline.sh", "source_commits": HOOK_COMMITS, "add_only": True},
     "engines": [{"name": "cbmc-contracts", "path": "/verif/check", "serves_properties": [c["property_id"] for c in checks],
                  "kind_free_text": "CBMC 6.11 on /repo/src/confuse.c and the flex output of /repo/src/lexer.l: per-function contracts (requires/ensures as closed harnesses or DFCC), callees replaced by contract carriers"}],
     "checks": checks, "not_applicable": na,
     "notes": "Exit 2 of a check = undecided (tool limit), never reported as violation. See DESIGN.md for the per-property contracts, bounds and the trusted base."}
json.dump(m, open(os.path.join(V, "MANIFEST.json"), "w"), indent=1)
print("claimed:", [c["property_id"] for c in checks])
