#!/bin/bash
# usage: try_seed.sh <patch.diff> <prop> [tier] [extra check args]   - apply a seeded change to /repo, run the check, undo
P=$1; C=$2; T=${3:-quick}; shift; shift; [ $# -gt 0 ] && shift
cd /repo || exit 2
if ! git diff --quiet; then echo "repo dirty, refusing"; exit 2; fi
if ! git apply "$P" 2>/tmp/try_seed_err; then
  if ! patch -p1 --fuzz=3 -s < "$P" >/tmp/try_seed_err 2>&1; then echo "PATCH DOES NOT APPLY: $(head -3 /tmp/try_seed_err)"; git checkout -- . ; find . -name '*.rej' -o -name '*.orig' | xargs rm -f; exit 3; fi
fi
cd /verif && ./check "$C" --tier "$T" "$@" 2>/tmp/try_seed_log | grep -E "VIOLATION|KNOWN" ; rc=${PIPESTATUS[0]}
grep -E "^\[|FAILED OBLIG|UNDECIDED" /tmp/try_seed_log | cut -c1-260 | tail -40
cd /repo && git checkout -- . && find . -name '*.rej' -o -name '*.orig' | xargs rm -f
echo "exit=$rc"
