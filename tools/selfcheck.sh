#!/bin/bash
# offline self-check run by setup.sh: the reference libc routines agree with glibc on their bounded domain, and the
# extractors' must-fire rules fire on the current tree.
set -e
V=$(cd "$(dirname "$0")/.." && pwd)
T=$(mktemp -d); trap 'rm -rf "$T"' EXIT
gcc -O1 -w -D_GNU_SOURCE -I"$V/carriers" "$V/tools/selfcheck.c" -o "$T/selfcheck"
"$T/selfcheck"
flex -Pcfg_yy -o "$T/lexer.c" /repo/src/lexer.l
python3 "$V/extract/extract_func.py" /repo/src/confuse.c "$T"
python3 "$V/extract/extract_actions.py" "$T/lexer.c" /repo/src/lexer.l "$T"
# registry consistency (informational): every obligation tagged for a property runs for that property
python3 "$V/tools/registry_check.py" || echo "selfcheck: registry gaps listed above (informational)"
