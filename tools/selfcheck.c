/* tools/selfcheck.c - native differential test of the bounded reference string routines (carriers/ref_strings.h)
 * against glibc, run by setup.sh.  Validation of an assumption, not a proof obligation. */
#include <stdint.h>
#include <stdio.h>
#include <stdlib.h>
#include <errno.h>
#define __CPROVER_assert(c, m) ((void)0)
#define __CPROVER_same_object(a, b) 1
#define __CPROVER_POINTER_OFFSET(p) ((uintptr_t)(p))
#define strlen ref_strlen
#define strcmp ref_strcmp
#define strcasecmp ref_strcasecmp
#define strcspn ref_strcspn
#define strspn ref_strspn
#define strchr ref_strchr
#define strdup ref_strdup
#define strndup ref_strndup
#define strtol ref_strtol
#define memmove ref_memmove
#define strcpy ref_strcpy
#define strcat ref_strcat
#define strncpy ref_strncpy
#include <string.h>
#include <strings.h>
#include "ref_strings.h"
#undef strlen
#undef strcmp
#undef strcasecmp
#undef strcspn
#undef strspn
#undef strchr
#undef strdup
#undef strndup
#undef strtol
#undef memmove
#undef strcpy
#undef strcat
#undef strncpy
static int sgn(int x) { return (x > 0) - (x < 0); }
int main(void)
{
	static const char alpha[] = "aAbz|=' \\\t0x19-+";
	const int na = (int)sizeof alpha - 1; long n = 0, bad = 0;
	char a[5], b[5];
	for (int la = 0; la <= 3; la++) for (long ia = 0; ia < (la == 0 ? 1 : la == 1 ? na : la == 2 ? na * na : na * na * na); ia++) {
		long t = ia; for (int k = 0; k < la; k++) { a[k] = alpha[t % na]; t /= na; } a[la] = 0;
		if (ref_strlen(a) != strlen(a)) bad++;
		{ char *d1 = ref_strdup(a), *d2 = ref_strndup(a, 2), *e2 = strndup(a, 2); if (strcmp(d1, a) || strcmp(d2, e2)) bad++; free(d1); free(d2); free(e2); }
		for (int c = 0; c < na; c++) { char *r1 = ref_strchr(a, alpha[c]), *r2 = strchr(a, alpha[c]); if (r1 != r2) bad++; }
		{ char x1[8] = "zz", x2[8] = "zz"; ref_strcpy(x1, a); strcpy(x2, a); if (strcmp(x1, x2)) bad++; ref_strcat(x1, "q"); strcat(x2, "q"); if (strcmp(x1, x2)) bad++;
		  memset(x1, 'y', 8); memset(x2, 'y', 8); ref_strncpy(x1, a, 5); strncpy(x2, a, 5); if (memcmp(x1, x2, 8)) bad++; }
		{ char m1[8] = "abcdefg", m2[8] = "abcdefg"; ref_memmove(m1 + 1, m1, 3); memmove(m2 + 1, m2, 3); if (memcmp(m1, m2, 8)) bad++; ref_memmove(m1, m1 + 2, 4); memmove(m2, m2 + 2, 4); if (memcmp(m1, m2, 8)) bad++; }
		for (int base = 0; base <= 16; base += (base == 0 ? 2 : base == 2 ? 6 : base == 8 ? 2 : 6)) {
			char *e1, *e2; long v1, v2; int er1, er2;
			errno = 0; v1 = ref_strtol(a, &e1, base); er1 = errno; errno = 0; v2 = strtol(a, &e2, base); er2 = errno;
			if (v1 != v2 || e1 != e2 || er1 != er2) { if (bad < 5) printf("strtol mismatch on '%s' base %d: %ld/%ld end %ld/%ld\n", a, base, v1, v2, (long)(e1 - a), (long)(e2 - a)); bad++; }
			n++;
		}
		if (la <= 2)
			for (int lb = 0; lb <= 2; lb++) for (long ib = 0; ib < (lb == 0 ? 1 : lb == 1 ? na : na * na); ib++) {
				long u = ib; for (int k = 0; k < lb; k++) { b[k] = alpha[u % na]; u /= na; } b[lb] = 0;
				if (sgn(ref_strcmp(a, b)) != sgn(strcmp(a, b))) bad++;
				if (sgn(ref_strcasecmp(a, b)) != sgn(strcasecmp(a, b))) bad++;
				if (ref_strcspn(a, b) != strcspn(a, b) || ref_strspn(a, b) != strspn(a, b)) bad++;
				n++;
			}
	}
	{ const char *big[] = { "9223372036854775807", "9223372036854775808", "-9223372036854775808", "-9223372036854775809", "0x7fffffffffffffff", "0x8000000000000000" };
	  for (unsigned k = 0; k < 6; k++) { char *e1, *e2; long v1, v2; int er1, er2; errno = 0; v1 = ref_strtol(big[k], &e1, 0); er1 = errno; errno = 0; v2 = strtol(big[k], &e2, 0); er2 = errno; if (v1 != v2 || e1 != e2 || er1 != er2) bad++; } }
	printf("reference string routines vs glibc: %ld comparisons, %ld mismatches\n", n, bad);
	return bad != 0;
}
