#!/bin/bash
# Runs the repository's own test-suite with the verification guard OFF (it is never defined by the build).
# Same programs as BASELINE.json (autotools `make check` in /repo/tests); falls back to the plain
# flex+gcc build if the in-tree autotools build is not configured.
cd /repo || exit 2
if [ -f Makefile ] && make -C /repo check >/tmp/verif_baseline.log 2>&1; then
  grep -E '^# (TOTAL|PASS|FAIL)' /tmp/verif_baseline.log; rm -f /tmp/verif_baseline.log; exit 0
fi
tail -20 /tmp/verif_baseline.log; rm -f /tmp/verif_baseline.log
d=$(mktemp -d); /verif/tools/native_build_and_test.sh /repo "$d"; rc=$?; rm -rf "$d"; exit $rc
