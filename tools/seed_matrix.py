#!/usr/bin/env python3
"""seed_matrix.py [ids...] - apply every stored seeded change to the repository under $VERIF_REPO (default /repo; must be
clean), run the quick check of its property, undo, and write seeded/matrix.json: which units caught which change."""
import json, os, re, subprocess, sys, time
V = os.path.dirname(os.path.dirname(os.path.abspath(__file__)))
REPO = os.environ.get("VERIF_REPO", "/repo")
ids = sys.argv[1:] or sorted(os.listdir(os.path.join(V, "seeded")))
out = {}
mp = os.path.join(V, "seeded", "matrix.json")
if os.path.exists(mp):
    out = json.load(open(mp))
for sid in ids:
    d = os.path.join(V, "seeded", sid)
    if not os.path.isdir(d) or not os.path.exists(os.path.join(d, "patch.diff")):
        continue
    prop = sid.split("_")[0]
    if subprocess.run(["git", "-C", REPO, "diff", "--quiet"]).returncode != 0:
        print("repository not clean"); sys.exit(2)
    if subprocess.run(["git", "-C", REPO, "apply", os.path.join(d, "patch.diff")]).returncode != 0:
        out[sid] = {"error": "patch does not apply"}; continue
    t0 = time.time()
    p = subprocess.run([os.path.join(V, "check"), prop, "--tier", "quick"], stdout=subprocess.PIPE, stderr=subprocess.PIPE, cwd=V)
    subprocess.run(["git", "-C", REPO, "checkout", "--", "."])
    err = p.stderr.decode("utf-8", "replace")
    units = re.findall(r"^\[%s\] (\S+)\s+(\S+)" % prop, err, re.M)
    failed = sorted({u for u, st in units if st == "failed"})
    vio = re.findall(r"FAILED OBLIGATION unit=(\S+) (.*?) \(", err)
    oblig = sorted({"%s: %s" % (u, o[:160]) for u, o in vio})
    out[sid] = {"property": prop, "exit": p.returncode, "violation_lines": p.stdout.decode().count("VIOLATION"), "units_failed": failed,
                "obligations": oblig[:12], "undecided": sorted({u for u, st in units if st == "undecided"}), "wall_s": round(time.time() - t0)}
    print(sid, out[sid]["exit"], failed, flush=True)
    json.dump(out, open(mp, "w"), indent=1)
