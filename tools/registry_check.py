#!/usr/bin/env python3
"""registry_check.py - static consistency of units.py against the harness sources (development aid, also run by selfcheck):
an obligation tagged for property P inside a harness function reachable from a unit's entry runs for P only if the unit is
registered for P.  Prints every (unit, missing tags) pair; exit 1 if any."""
import os, re, sys
V = os.path.dirname(os.path.dirname(os.path.abspath(__file__)))
sys.path.insert(0, V)
import units

def load(path, seen=None):
    seen = seen if seen is not None else set()
    if path in seen or not os.path.exists(path):
        return ""
    seen.add(path)
    txt = open(path).read()
    out = ""
    for m in re.finditer(r'#include "([^"]+)"', txt):
        for d in ("harness", "carriers", "spec", "contracts"):
            q = os.path.join(V, d, m.group(1))
            if os.path.exists(q) and d == "harness":
                out += load(q, seen)
    return out + "\n" + txt

def functions(txt):
    f = {}
    lines = txt.split("\n")
    i = 0
    while i < len(lines):
        m = re.match(r"^(?:static )?[A-Za-z_][A-Za-z0-9_ \*]*?\b([A-Za-z_][A-Za-z0-9_]*)\s*\([^;]*\)\s*(\{.*)?$", lines[i])
        if m and not lines[i].startswith(("#", " ", "\t", "/")):
            name = m.group(1)
            if lines[i].rstrip().endswith("}") and "{" in lines[i]:
                f[name] = lines[i]; i += 1; continue
            j = i + 1
            while j < len(lines) and not lines[j].startswith("}"):
                j += 1
            f[name] = "\n".join(lines[i:j + 1])
            i = j
        i += 1
    return f

def macros(txt):
    m = {}
    for mm in re.finditer(r"^#define ([A-Za-z_][A-Za-z0-9_]*)(?:\([^)]*\))?((?:.*\\\n)*.*)$", txt, re.M):
        m[mm.group(1)] = mm.group(2)
    return m

bad = 0
cache = {}
for u in units.UNITS:
    h = os.path.join(V, u["harness"])
    if h not in cache:
        txt = load(h)
        cache[h] = (functions(txt), macros(txt))
    fs, ms = cache[h]
    todo = [u["entry"]]; seen = set(); tags = set()
    while todo:
        n = todo.pop()
        if n in seen:
            continue
        seen.add(n)
        body = fs.get(n, "") + " " + ms.get(n, "")
        for t in re.findall(r'CHECK\(\s*"((?:C\d\d[, ]*)+)"', body):
            tags.update(re.findall(r"C\d\d", t))
        for t in re.findall(r'KFCHECK\(\s*"[^"]+"\s*,\s*"((?:C\d\d[, ]*)+)"', body):
            tags.update(re.findall(r"C\d\d", t))
        for ident in set(re.findall(r"[A-Za-z_][A-Za-z0-9_]*", body)):
            if (ident in fs or ident in ms) and ident not in seen:
                todo.append(ident)
    missing = sorted(tags - set(u.get("props", [])) - set(u.get("not_for", [])))
    if missing:
        print("REGISTRY: unit %-28s entry %-24s carries obligations tagged %s but is not registered for them" % (u["name"], u["entry"], ",".join(missing)))
        bad = 1
sys.exit(bad)
