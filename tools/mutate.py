#!/usr/bin/env python3
"""tools/mutate.py - contract-strength probe (development aid, not a registered check).

Phase 1 (gen):  syntactic mutants of the functions of src/confuse.c that some unit names in its `func` field are built
                on scratch copies under /tmp/mut; a mutant that compiles and passes the 24 test programs is a survivor.
Phase 2 (run):  for every survivor the quick-tier units naming the mutated function run against a scratch copy of the
                tree (VERIF_REPO), from a scratch copy of /verif so that evidence/ and replays/ stay untouched.
                A survivor no unit fails on is either an equivalent mutant or a contract gap: listed for reading.
Nothing is written to /repo; every scratch directory is removed when a phase ends.

usage: mutate.py gen [--per-func N] [--seed S] [--funcs a,b] [--file lexer.l] [--append]   -> /tmp/mut/survivors.json
       mutate.py run [--jobs J] [--only-alive]   (re-run the survivors no unit reported)        -> /tmp/mut/results.json
"""
import os, re, sys, json, random, shutil, subprocess, hashlib, concurrent.futures as cf

VERIF = os.path.dirname(os.path.dirname(os.path.abspath(__file__)))
REPO = "/repo"
ROOT = "/tmp/mut"
SURV = os.environ.get("MUT_SURV", "survivors.json"); RES = os.environ.get("MUT_RES", "results.json")
sys.path.insert(0, VERIF)


def functions(src):
    """(name, first body line, last body line) for every function definition in confuse.c (K&R-less, brace in column 0)"""
    lines = src.split("\n")
    out = []
    i = 0
    while i < len(lines):
        if lines[i] == "{" and i > 0:
            k = i - 1
            while k > 0 and lines[k][:1] in (" ", "\t"):
                k -= 1
            sig = " ".join(lines[k:i])
            m = re.search(r"([A-Za-z_][A-Za-z0-9_]*)\s*\([^;]*$", sig)
            j = i + 1
            while j < len(lines) and lines[j] != "}":
                j += 1
            if m and not sig.startswith(("struct", "typedef", "static const", "enum")):
                out.append((m.group(1), i + 1, j - 1))
            i = j
        i += 1
    return out


OPS = [
    ("eq", re.compile(r"=="), "!="), ("ne", re.compile(r"!="), "=="),
    ("lt", re.compile(r"(?<![<\-])<(?![<=])"), "<="), ("le", re.compile(r"<="), "<"),
    ("gt", re.compile(r"(?<![>\-])>(?![>=])"), ">="), ("ge", re.compile(r">="), ">"),
    ("and", re.compile(r"&&"), "||"), ("or", re.compile(r"\|\|"), "&&"),
    ("plus1", re.compile(r"\+ 1\b"), "+ 0"), ("minus1", re.compile(r"- 1\b"), "- 0"),
    ("succ", re.compile(r"\bCFG_SUCCESS\b"), "CFG_FAIL"), ("fail", re.compile(r"\bCFG_FAIL\b"), "CFG_SUCCESS"),
    ("not", re.compile(r"\bif \(!"), "if ("), ("iszero", re.compile(r"\bif \((?!!)"), "if (!"),
    ("orassign", re.compile(r"\|="), "&="), ("inc", re.compile(r"\+\+"), "--"),
    ("true", re.compile(r"\bcfg_true\b"), "cfg_false"), ("null", re.compile(r"= NULL;"), "= (void *)1 - 1 + 0;"),
]
STMT = re.compile(r"^\t+(?!return\b|break\b|continue\b|goto\b|case\b|default\b|else\b|if\b|for\b|while\b|do\b|switch\b)[A-Za-z_*(][^{}]*;\s*(/\*.*\*/)?\s*$")
DECL = re.compile(r"^\t+(const |static |unsigned |struct |char |int |long |double |size_t |cfg_[a-z_]*_t |va_list |FILE |void )")


def mutants_of(lines, lo, hi):
    for ln in range(lo, hi + 1):
        text = lines[ln]
        s = text.strip()
        if not s or s.startswith(("/*", "*", "//", "#")):
            continue
        for name, rx, rep in OPS:
            for k, m in enumerate(rx.finditer(text)):
                if name == "iszero" and "if (!" in text[m.start():m.start() + 5]:
                    continue
                yield (ln, "%s#%d" % (name, k), text[:m.start()] + rep + text[m.end():])
        if STMT.match(text) and not DECL.match(text):
            yield (ln, "delete", re.match(r"^\t+", text).group(0) + ";")
        if re.match(r"^\t+return [^;]+;$", text) and "CFG_" not in text and "NULL" not in text:
            pass


def build_and_test(tag, mutated_src, target="confuse.c"):
    d = os.path.join(ROOT, "w_" + tag)
    shutil.rmtree(d, ignore_errors=True)
    os.makedirs(d + "/src")
    for f in os.listdir(REPO + "/src"):
        if f.endswith((".c", ".h", ".l")) and f != "lexer.c":
            shutil.copy(REPO + "/src/" + f, d + "/src/" + f)
    open(d + "/src/" + target, "w").write(mutated_src)
    shutil.copy(REPO + "/config.h", d + "/config.h")
    os.symlink(REPO + "/tests", d + "/tests")
    p = subprocess.run([VERIF + "/tools/native_build_and_test.sh", d, d + "/_nb"], stdout=subprocess.PIPE, stderr=subprocess.STDOUT, text=True, env=dict(os.environ, EXTRA_CFLAGS="-Werror=implicit-function-declaration"))
    shutil.rmtree(d, ignore_errors=True)
    return p.returncode, p.stdout[-300:]


def gen(args):
    import units
    per = int(opt(args, "--per-func", "6")); seed = int(opt(args, "--seed", "1")); only = opt(args, "--funcs", "")
    named = " ".join(u["func"] for u in units.UNITS if u.get("func"))
    target = opt(args, "--file", "confuse.c")
    src = open(REPO + "/src/" + target).read(); lines = src.split("\n")
    rnd = random.Random(seed)
    os.makedirs(ROOT, exist_ok=True)
    todo = []
    cap = {}
    notunder = []
    regions = functions(src)
    if target == "lexer.l":
        marks = [k for k, l in enumerate(lines) if l.startswith("%%")]
        regions = [("lexer_rules", marks[0] + 1, marks[1] - 1)] + [(n, lo, hi) for n, lo, hi in regions if lo > marks[1]]
    for name, lo, hi in regions:
        if only and name not in only.split(","):
            continue
        if target == "confuse.c" and not re.search(r"\b%s\b" % re.escape(name), named):
            notunder.append(name); continue
        ms = list(mutants_of(lines, lo, hi))
        rnd.shuffle(ms)
        cap[name] = max(4, min(60, (hi - lo) // per))
        todo += [(name, ln, op, new) for ln, op, new in ms[:cap[name] * 4]]
    print("functions not named by any unit:", ", ".join(notunder))
    print("candidate mutants:", len(todo))
    surv = json.load(open(ROOT + "/" + SURV)) if (os.path.exists(ROOT + "/" + SURV) and "--append" in args) else {}
    percount = {}

    def one(t):
        name, ln, op, new = t
        ml = list(lines); old = ml[ln]; ml[ln] = new
        tag = hashlib.sha1(("%s:%d:%s" % (name, ln, op)).encode()).hexdigest()[:10]
        rc, tail = build_and_test(tag, "\n".join(ml), target)
        return t, tag, rc, old
    with cf.ThreadPoolExecutor(int(opt(args, "--jobs", "6"))) as ex:
        for t, tag, rc, old in ex.map(one, todo):
            name, ln, op, new = t
            if rc == 0 and percount.get(name, 0) < cap[name]:
                percount[name] = percount.get(name, 0) + 1
                surv[tag] = dict(func=name, line=ln + 1, op=op, old=old, new=new, target=target)
    json.dump(surv, open(ROOT + "/" + SURV, "w"), indent=1)
    print("survivors kept:", len(surv), "(per function cap: body lines / %d, 4..60)" % per)


def run(args):
    import units
    surv = json.load(open(ROOT + "/" + SURV))
    done = json.load(open(ROOT + "/" + RES)) if os.path.exists(ROOT + "/" + RES) else {}
    vcopy = ROOT + "/verif_" + RES.replace(".json", "")
    shutil.rmtree(vcopy, ignore_errors=True)
    subprocess.run(["rsync", "-a", "--exclude", ".git", "--exclude", "evidence", "--exclude", "replays", "--exclude", "seeded", VERIF + "/", vcopy + "/"], check=True)
    os.makedirs(vcopy + "/evidence", exist_ok=True)
    lines0 = {t: open(REPO + "/src/" + t).read().split("\n") for t in ("confuse.c", "lexer.l")}

    def units_for(fn):
        if fn == "__lexer__":
            return [u["name"] for u in units.UNITS if u.get("tu") == "lexer" and "quick" in u.get("tiers", ("quick", "thorough"))]
        return [u["name"] for u in units.UNITS if u.get("func") and re.search(r"\b%s\b" % re.escape(fn), u["func"]) and "quick" in u.get("tiers", ("quick", "thorough"))]

    def one(item):
        tag, m = item
        if tag in done and not ("--only-alive" in args and done[tag]["exit"] != 1):
            return tag, done[tag]
        tgt = m.get("target", "confuse.c")
        us = units_for("__lexer__" if tgt == "lexer.l" else m["func"])
        cost = {u["name"]: u.get("cost", 10) for u in units.UNITS}
        cheap = [n for n in us if cost[n] <= 100]; dear = [n for n in us if cost[n] > 100]
        d = ROOT + "/r_" + tag
        shutil.rmtree(d, ignore_errors=True); os.makedirs(d + "/src")
        for f in os.listdir(REPO + "/src"):
            if f.endswith((".c", ".h", ".l")) and f != "lexer.c":
                shutil.copy(REPO + "/src/" + f, d + "/src/" + f)
        ml = list(lines0[tgt])
        at = [k for k in range(max(0, m["line"] - 12), min(len(ml), m["line"] + 12)) if ml[k] == m["old"]]
        if not at:
            shutil.rmtree(d, ignore_errors=True)
            return tag, dict(m, units=0, exit=3, failed_units=[], undecided=["line moved"])
        at.sort(key=lambda k: abs(k - (m["line"] - 1)))
        ml[at[0]] = m["new"]
        open(d + "/src/" + tgt, "w").write("\n".join(ml))
        shutil.copy(REPO + "/config.h", d + "/config.h")
        failed = []; undec = []; rc = 0
        for stage in (cheap, dear):
            if not stage or failed:
                continue
            p = subprocess.run([vcopy + "/check", "ALL", "--units", ",".join(stage)], stdout=subprocess.PIPE, stderr=subprocess.STDOUT, text=True,
                               env=dict(os.environ, VERIF_REPO=d, VERIF_TIMEOUT="400", VERIF_JOBS="4"))
            failed += sorted(set(re.findall(r"FAILED OBLIGATION unit=(\S+)", p.stdout)))
            undec += sorted(set(re.findall(r"^\[ALL\] (\S+)\s+(?:undecided|timeout)", p.stdout, re.M)))
            rc = max(rc, p.returncode) if p.returncode != 1 else 1
            if p.returncode == 1:
                rc = 1
        shutil.rmtree(d, ignore_errors=True)
        return tag, dict(m, units=len(us), exit=rc, failed_units=failed, undecided=undec)
    with cf.ThreadPoolExecutor(int(opt(args, "--jobs", "3"))) as ex:
        items = list(surv.items()); random.Random(7).shuffle(items)
        for tag, r in ex.map(one, items):
            done[tag] = r
            json.dump(done, open(ROOT + "/" + RES, "w"), indent=1)
            print("%-10s %-26s line %-5d %-10s exit=%d %s" % (tag, r["func"], r["line"], r["op"], r["exit"], ",".join(r["failed_units"][:3])), flush=True)
    shutil.rmtree(vcopy, ignore_errors=True)
    alive = [r for r in done.values() if r["exit"] == 0]
    print("survivors: %d   reported by a unit: %d   not reported: %d   undecided: %d" % (len(done), sum(r["exit"] == 1 for r in done.values()), len(alive), sum(r["exit"] == 2 for r in done.values())))


def opt(args, k, d):
    return args[args.index(k) + 1] if k in args else d


if __name__ == "__main__":
    {"gen": gen, "run": run}[sys.argv[1]](sys.argv[2:])
