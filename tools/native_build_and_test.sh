#!/bin/bash
# usage: build_and_test.sh <source-tree> [outdir]
# Builds libconfuse from <tree>/src (flex + gcc, no autotools) into <outdir> (default <tree>/_nb)
# and runs the 24 test programs of <tree>/tests. Exit 0 iff all pass.
set -u
T=$(realpath "$1"); O=${2:-$T/_nb}; mkdir -p "$O"
CFG=$T/config.h; [ -f "$CFG" ] || cp /repo/config.h "$T/config.h"
CF="-g -O1 -DHAVE_CONFIG_H -D_GNU_SOURCE -DLOCALEDIR=\"/usr/local/share/locale\" -I$T -I$T/src ${EXTRA_CFLAGS:-}"
flex -Pcfg_yy -o "$O/lexer.c" "$T/src/lexer.l" || exit 2
gcc $CF -c "$T/src/confuse.c" -o "$O/confuse.o" || exit 2
gcc $CF -c "$O/lexer.c" -o "$O/lexer.o" || exit 2
ar rcs "$O/libconfuse.a" "$O/confuse.o" "$O/lexer.o" || exit 2
fail=0; n=0
TESTS=$(sed -n 's/^TESTS *+\?= *//p' "$T/tests/Makefile.am")
for t in $TESTS; do
  gcc $CF -DSRC_DIR="\"$T/tests\"" "$T/tests/$t.c" "$O/libconfuse.a" -o "$O/t_$t" 2>"$O/t_$t.cc.log" || { echo "COMPILE-FAIL $t"; fail=1; continue; }
  ( cd "$T/tests" && timeout 60 "$O/t_$t" >"$O/t_$t.log" 2>&1 ) || { echo "FAIL $t"; fail=1; }
  n=$((n+1))
done
echo "ran $n tests, fail=$fail"
exit $fail
