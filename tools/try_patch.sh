#!/bin/bash
# usage: try_patch.sh <patch.diff> <units> [prop]   - run units against a scratch copy of /repo/src with a patch applied (development aid)
D=$(mktemp -d /tmp/trypatch.XXXX); mkdir -p $D/src; cp /repo/src/*.[chl] $D/src/; rm -f $D/src/lexer.c; cp /repo/config.h $D/
( cd $D && patch -p1 -s --fuzz=3 < "$1" >/dev/null 2>&1 ) || echo "patch failed"
cd /verif; VERIF_REPO=$D VERIF_TIMEOUT=${VERIF_TIMEOUT:-400} ./check ${3:-ALL} --units "$2" 2>&1 | grep -E "^\[|FAILED|NOTE" | cut -c1-230
rm -rf $D
