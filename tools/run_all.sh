#!/bin/bash
# usage: run_all.sh <tier>   - every claimed check in sequence; prints one line per property
T=${1:-quick}
for p in C01 C02 C03 C04 C05 C06 C07 C08 C09 C10 C11 C12 C13 C14 C15 C16 C17 C18 C19; do
  s=$(date +%s); ./check $p --tier $T > /tmp/run_all_$p.out 2> /tmp/run_all_$p.err; rc=$?
  echo "$p tier=$T exit=$rc $(( $(date +%s) - s ))s $(grep -c KNOWN-FINDING /tmp/run_all_$p.out) known-findings $(tail -1 /tmp/run_all_$p.err | cut -c1-120)"
  if [ $rc -ne 0 ]; then bad=1; grep -E "UNDECIDED|VIOLATION|FAILED OBL" /tmp/run_all_$p.err /tmp/run_all_$p.out | head -5 | cut -c1-300; fi
done
exit ${bad:-0}
