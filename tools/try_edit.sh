#!/bin/bash
# usage: try_edit.sh <python-expr transforming s> <units>   - run units against a scratch copy of /repo/src with an edit (development aid)
D=$(mktemp -d /tmp/tryedit.XXXX); mkdir -p $D/src; cp /repo/src/*.[chl] $D/src/; rm -f $D/src/lexer.c; cp /repo/config.h $D/
python3 - "$D" "$1" <<'PY'
import sys
d,expr=sys.argv[1],sys.argv[2]
for f in ("confuse.c","lexer.l"):
    p=d+"/src/"+f; s=open(p).read(); s0=s
    s=eval(expr)
    if s!=s0: open(p,"w").write(s); print("edited",f)
PY
cd /verif; VERIF_REPO=$D VERIF_TIMEOUT=${VERIF_TIMEOUT:-400} ./check ${PROP:-ALL} --units "$2" 2>&1 | grep -E "^\[|FAILED|NOTE" | cut -c1-260
rm -rf $D
