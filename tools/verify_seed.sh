#!/bin/bash
# usage: verify_seed.sh <Cxx> <k>   - confirm a seeded change from /tmp/wt_out/<Cxx>/<k> on a scratch worktree of /repo HEAD,
# and store it under /verif/seeded/<Cxx>_<k>/ (patch rebased on HEAD, demo, meta.json).  Removes the worktree afterwards.
C=$1; K=$2; KO=${3:-$2}; SRC=${SEEDSRC:-/tmp/wt_out}/$C/$K; W=/tmp/seedchk_${C}_$KO; OUT=/verif/seeded/${C}_$KO
rm -rf $W; git -C /repo worktree add --detach $W HEAD -q || exit 2
cp /repo/config.h $W/
res() { echo "$C/$KO: $1"; git -C /repo worktree remove --force $W; rm -rf /tmp/seedbuild_${C}_$K*; exit ${2:-1}; }
B0=/tmp/seedbuild_${C}_${K}_orig; B1=/tmp/seedbuild_${C}_${K}_mut
EXTRA_CFLAGS="-fsanitize=address,undefined" /verif/tools/native_build_and_test.sh $W $B0 >/dev/null 2>&1 || res "baseline build/tests fail"
gcc -g -fsanitize=address,undefined -I$W/src $SRC/demo.c $B0/libconfuse.a -o $B0/demo 2>/dev/null || res "demo does not compile"
( cd $W/tests && ASAN_OPTIONS=${SEED_ASAN:-detect_leaks=1} timeout 60 $B0/demo >/dev/null 2>&1 ); d0=$?
cd $W
if ! git apply $SRC/patch.diff 2>/dev/null; then patch -p1 -s --fuzz=3 < $SRC/patch.diff >/dev/null 2>&1 || res "patch does not apply on the repaired tree" 3; fi
find . -name '*.orig' -o -name '*.rej' | xargs rm -f
git diff -- src > /tmp/seedbuild_${C}_${K}.diff
t1=$( /verif/tools/native_build_and_test.sh $W $B1 2>&1 | tail -1 )
EXTRA_CFLAGS="-fsanitize=address,undefined" /verif/tools/native_build_and_test.sh $W $B1 >/dev/null 2>&1
gcc -g -fsanitize=address,undefined -I$W/src $SRC/demo.c $B1/libconfuse.a -o $B1/demo 2>/dev/null || res "demo does not compile against the change"
( cd $W/tests && ASAN_OPTIONS=${SEED_ASAN:-detect_leaks=1} timeout 60 $B1/demo >/dev/null 2>&1 ); d1=$?
case "$t1" in *"fail=0"*) ;; *) res "test-suite fails with the change ($t1)";; esac
[ $d0 -eq 0 ] || res "demo fails on the unchanged (repaired) tree: exit $d0 - the seed's behaviour is already repaired or the demo depends on a repaired defect" 4
[ $d1 -ne 0 ] || res "demo passes with the change" 5
mkdir -p $OUT; cp /tmp/seedbuild_${C}_${K}.diff $OUT/patch.diff; cp $SRC/demo.c $OUT/demo.c
python3 - "$SRC/meta.json" "$OUT/meta.json" "$C" "$d1" <<'PY'
import json,sys
m=json.load(open(sys.argv[1]))
out={"property":sys.argv[3],"summary":m.get("summary"),"site":m.get("site"),"needs":m.get("needs"),
 "confirmed":{"how":"tools/verify_seed.sh on a scratch worktree of /repo HEAD: test-suite (24 programs) passes with the change; demo exits 0 on the unchanged tree and %s with the change (ASan/UBSan build)"%sys.argv[4]},
 "origin":"written by an independent sub-agent that saw only the property text"}
json.dump(out,open(sys.argv[2],'w'),indent=1)
PY
res "confirmed (demo exit $d1 with change)" 0
