#!/usr/bin/env python3
"""selftest/harmless_edits.py - behaviour-preserving rewrites of /repo (applied one at a time, then undone) on which every
check must stay quiet (exit 0).  Usage: harmless_edits.py [name ...]   Needs a clean /repo working tree."""
import subprocess, sys, os
REPO = os.environ.get("VERIF_REPO", "/repo")
R = REPO + "/src/"
EDITS = {
 "H1_setopt_locals": ("confuse.c", [("	char *endptr;\n\n	if (!cfg || !opt) {", "	char *endptr = NULL;\n\n	if (opt == NULL || cfg == NULL) {")], ["C04", "C10", "C14"]),
 "H2_lexer_patterns": ("lexer.l", [('"#"{1,}.*   return qstr', '"#"+.*   return qstr'), ("[ \\t]+    /* eat up whitespace */", "[\\t ]+    /* eat up whitespace */"),
                                   ('"("         { cfg_yylval = yytext; return \'(\'; }\n")"         { cfg_yylval = yytext; return \')\'; }', '")"         { cfg_yylval = yytext; return \')\'; }\n"("         { cfg_yylval = yytext; return \'(\'; }')], ["C03", "C15"]),
 "H3_free_null": ("confuse.c", [("				if (comment)\n					free(comment);\n\n				return STATE_EOF;", "				free(comment);\n\n				return STATE_EOF;")], ["C01", "C07"]),
 "H4_getval_shape": ("confuse.c", [("		if (index >= opt->nvalues)\n			val = cfg_addval(opt);\n		else\n			val = opt->values[index];", "		if (index < opt->nvalues)\n			val = opt->values[index];\n		else\n			val = cfg_addval(opt);")], ["C09", "C10"]),
 "H5_print_hoist": ("confuse.c", [("	for (i = 0; cfg->opts[i].name; i++)\n		CFG_VERIF_LOOP(print_cfg)\n	{\n		cfg_print_filter_func_t pff = cfg->pff ? cfg->pff : fb_pff;\n		if (pff", "	cfg_print_filter_func_t pff = cfg->pff ? cfg->pff : fb_pff;\n\n	for (i = 0; cfg->opts[i].name; i++)\n		CFG_VERIF_LOOP(print_cfg)\n	{\n		if (pff")], ["C19"]),
 "H6_dupopt_order": ("confuse.c", [("		dupopts[i].name = NULL;\n		dupopts[i].subopts = NULL;", "		dupopts[i].subopts = NULL;\n		dupopts[i].name = NULL;")], ["C16"]),
 "H8_setnstr_free": ("confuse.c", [("	if (oldstr)\n		free(oldstr);\n	opt->flags |= CFGF_MODIFIED;", "	free(oldstr);\n	opt->flags |= CFGF_MODIFIED;")], ["C07", "C09"]),
 "H9_comment_replace": ("confuse.c", [("				if (comment)\n					free(comment);\n				comment = strdup(cfg_yylval);", "				free(comment);\n				comment = strdup(cfg_yylval);")], ["C15", "C07"]),
 "H10_wrappers_direct": ("confuse.c", [("	return cfg_getnint(cfg, name, 0);", "	return cfg_opt_getnint(cfg_getopt(cfg, name), 0);"), ("	return cfg_setnbool(cfg, name, value, 0);", "	return cfg_opt_setnbool(cfg_getopt(cfg, name), value, 0);")], ["C09"]),
 "H11_numopts_while": ("confuse.c", [("	for (n = 0; opts && opts[n].name; n++)\n		CFG_VERIF_LOOP(numopts)\n		/* do nothing */ ;", "	n = 0;\n	while (opts && opts[n].name)\n		CFG_VERIF_LOOP(numopts)\n		n++;")], ["C16"]),
 "H12_secidx_strtol": ("confuse.c", [("			if (endptr == title || *endptr != '\\0')\n				i = -1;", "			if (*endptr != '\\0' || endptr == title)\n				i = -1;")], ["C11"]),
 "H13_section_fields_order": ("confuse.c", [("			val->section->line = cfg->line;\n			val->section->errfunc = cfg->errfunc;\n			val->section->title", "			val->section->errfunc = cfg->errfunc;\n			val->section->line = cfg->line;\n			val->section->title")], ["C01", "C06"]),
 "H14_print_other_stdio": ("confuse.c", [("	while (indent--)\n		CFG_VERIF_LOOP(indent)\n		fprintf(fp, \"  \");", "	while (indent--)\n		CFG_VERIF_LOOP(indent)\n		fputs(\"  \", fp);"), ("			else\n				fprintf(fp, \"%c\", *str);", "			else\n				fputc(*str, fp);")], ["C19", "C05"]),
 "H15_leaf_hoist": ("confuse.c", [("	unsigned int i;\n\n	for (i = 0; cfg->opts && cfg->opts[i].name; i++)\n		CFG_VERIF_LOOP(getopt_leaf)\n	{\n		if (is_set(CFGF_NOCASE, cfg->flags)) {\n			if (strcasecmp(cfg->opts[i].name, name) == 0)", "	unsigned int i;\n	int nocase = is_set(CFGF_NOCASE, cfg->flags);\n\n	for (i = 0; cfg->opts && cfg->opts[i].name; i++)\n		CFG_VERIF_LOOP(getopt_leaf)\n	{\n		if (nocase) {\n			if (strcasecmp(cfg->opts[i].name, name) == 0)")], ["C11", "C12"]),
 "H7_searchpath_else": ("confuse.c", [("	if ((fullpath = cfg_searchpath(p->next, file)) != NULL)\n		return fullpath;", "	fullpath = cfg_searchpath(p->next, file);\n	if (fullpath)\n		return fullpath;")], ["C17"]),
 "H16_leaf_args_swapped": ("confuse.c", [("			if (strcasecmp(cfg->opts[i].name, name) == 0)\n				return &cfg->opts[i];", "			if (!strcasecmp(name, cfg->opts[i].name))\n				return cfg->opts + i;")], ["C01", "C11"]),
 "H17_indent_for": ("confuse.c", [("	while (indent--)\n		CFG_VERIF_LOOP(indent)\n		fprintf(fp, \"  \");", "	for (; indent > 0; indent--)\n		CFG_VERIF_LOOP(indent)\n		fprintf(fp, \"  \");")], ["C19"]),
 "H18_print_no_continue": ("confuse.c", [("		if (pff && pff(cfg, &cfg->opts[i]))\n			continue;\n		result += cfg_opt_print_pff_indent(&cfg->opts[i], fp, pff, indent);", "		if (!pff || !pff(cfg, &cfg->opts[i]))\n			result += cfg_opt_print_pff_indent(cfg->opts + i, fp, pff, indent);")], ["C19"]),
}
names = sys.argv[1:] or list(EDITS)
if subprocess.run(["git", "-C", REPO, "diff", "--quiet"]).returncode != 0:
    print("repository not clean"); sys.exit(2)
bad = 0
for n in names:
    f, reps, props = EDITS[n]
    s = open(R + f).read()
    for a, b in reps:
        if a not in s:
            print(n, "pattern not found:", a[:40]); bad = 1
        s = s.replace(a, b)
    open(R + f, "w").write(s)
    try:
        for p in props:
            r = subprocess.run(["/verif/check", p, "--tier", "quick"], stdout=subprocess.PIPE, stderr=subprocess.PIPE, cwd="/verif")
            print(n, p, "exit", r.returncode, flush=True)
            if r.returncode != 0:
                bad = 1
                print(r.stderr.decode()[-1500:])
    finally:
        subprocess.run(["git", "-C", REPO, "checkout", "--", "."])
sys.exit(bad)
