/* contracts/cfg_verif_hooks.h - text of the hooks in /repo/src/confuse.c (guard MARTINH_LIBCONFUSE_VERIF).
 *
 * CFG_VERIF_PI_ENTRY sits between the initialisation of the locals of cfg_parse_internal() and its token loop.
 * It hands the addresses of ALL loop-carried locals to the harness function cfgv_pi_entry(); that function
 *   - in the outermost activation: (induction step) havocs them under the loop invariant, or (base case / scripted
 *     runs) leaves them alone, and returns 0;
 *   - in a nested activation (the recursive calls for a section body and for a skipped unknown section): stands for
 *     contract::cfg_parse_internal - it checks the precondition, applies the postcondition and returns 1, which makes
 *     the nested activation return the contract's result at once.  This cuts the recursion: every nesting depth is
 *     covered by the contract, not by unrolling.
 * A renamed local makes this text stop compiling: the unit then reports exit 2 (infrastructure), not a violation. */
#ifndef CFG_VERIF_HOOKS_H
#define CFG_VERIF_HOOKS_H
struct cfg_t; struct cfg_opt_t; union cfg_value_t;
int cfgv_pi_entry(struct cfg_t *cfg, int level, int force_state, struct cfg_opt_t *force_opt,
		  int *state, char **comment, char **opttitle, struct cfg_opt_t **opt, union cfg_value_t **val,
		  struct cfg_opt_t *funcopt, int *ignore, int *num_values, int *result);
#define CFG_VERIF_PI_ENTRY { int cfgv_res_; if (cfgv_pi_entry(cfg, level, force_state, force_opt, &state, &comment, &opttitle, &opt, &val, &funcopt, &ignore, &num_values, &cfgv_res_)) return cfgv_res_; }
/* CFG_VERIF_LOOP(tag) sits between a loop header and its body and carries the loop's contract (frame, inductive
 * invariant, variant) in CBMC's contract language.  Only the S1 loop units (goto-instrument --dfcc
 * --apply-loop-contracts) use it: there the loop is replaced by "invariant holds on entry; havoc the frame; assume the
 * invariant; one iteration; invariant holds again and the variant went down", which covers every iteration count.
 * Every other unit unwinds the loop and CBMC ignores the annotation.
 * Ghost: cfgv_term_k is the index of the option array's terminator (named by the function contract's precondition). */
int cfgv_term_k;
#define CFG_VERIF_LOOP(tag) CFG_VERIF_LOOP_##tag
#define CFG_VERIF_LOOP_numopts __CPROVER_assigns(n) __CPROVER_loop_invariant(0 <= n && n <= cfgv_term_k) __CPROVER_decreases(cfgv_term_k - n)
#define CFG_VERIF_LOOP_getnopt __CPROVER_assigns(i) __CPROVER_loop_invariant(i <= (unsigned int)cfgv_term_k && i <= index) __CPROVER_decreases(cfgv_term_k - (int)i)
/* cfg_indent(): ghost cfgv_blanks counts the blanks handed to the output stream (the fprintf carrier of the unit adds to it) */
int cfgv_blanks;
#define CFG_VERIF_LOOP_indent __CPROVER_assigns(indent, cfgv_blanks) \
	__CPROVER_loop_invariant(0 <= indent && indent <= __CPROVER_loop_entry(indent) && cfgv_blanks == __CPROVER_loop_entry(cfgv_blanks) + 2 * (__CPROVER_loop_entry(indent) - indent)) \
	__CPROVER_decreases(indent)
/* cfg_getopt_leaf(): ghost cfgv_first is the index of the first entry whose name equals the name asked for (the
 * terminator index if there is none); "equals" is the verdict of the strcmp / strcasecmp carrier of the unit. */
int cfgv_first;
#define CFG_VERIF_LOOP_getopt_leaf __CPROVER_assigns(i) __CPROVER_loop_invariant(i <= (unsigned int)cfgv_first) __CPROVER_decreases(cfgv_term_k - (int)i)
/* cfg_print_pff_indent(): ghost monitor of the unit's filter / option-printer carriers: cfgv_pos entries have been dealt
 * with (filtered or printed) in order, cfgv_fasked = the filter has been asked about entry cfgv_pos, cfgv_sum = sum of the
 * option printer's results so far. */
int cfgv_pos, cfgv_sum; _Bool cfgv_fasked;
#define CFG_VERIF_LOOP_print_cfg __CPROVER_assigns(i, result, cfgv_pos, cfgv_fasked, cfgv_sum) \
	__CPROVER_loop_invariant(0 <= i && i <= cfgv_term_k && i == cfgv_pos && !cfgv_fasked && result == cfgv_sum && -i <= result && result <= 0) __CPROVER_decreases(cfgv_term_k - i)
#endif
