/* contracts/cfg_verif_hooks.h - text of the hooks in /repo/src/confuse.c (guard MARTINH_LIBCONFUSE_VERIF).
 *
 * CFG_VERIF_PI_ENTRY sits between the initialisation of the locals of cfg_parse_internal() and its token loop.
 * It hands the addresses of ALL loop-carried locals to the harness function cfgv_pi_entry(); that function
 *   - in the outermost activation: (induction step) havocs them under the loop invariant, or (base case / scripted
 *     runs) leaves them alone, and returns 0;
 *   - in a nested activation (the recursive calls for a section body and for a skipped unknown section): stands for
 *     contract::cfg_parse_internal - it checks the precondition, applies the postcondition and returns 1, which makes
 *     the nested activation return the contract's result at once.  This cuts the recursion: every nesting depth is
 *     covered by the contract, not by unrolling.
 * A renamed local makes this text stop compiling: the unit then reports exit 2 (infrastructure), not a violation. */
#ifndef CFG_VERIF_HOOKS_H
#define CFG_VERIF_HOOKS_H
struct cfg_t; struct cfg_opt_t; union cfg_value_t;
int cfgv_pi_entry(struct cfg_t *cfg, int level, int force_state, struct cfg_opt_t *force_opt,
		  int *state, char **comment, char **opttitle, struct cfg_opt_t **opt, union cfg_value_t **val,
		  struct cfg_opt_t *funcopt, int *ignore, int *num_values, int *result);
#define CFG_VERIF_PI_ENTRY { int cfgv_res_; if (cfgv_pi_entry(cfg, level, force_state, force_opt, &state, &comment, &opttitle, &opt, &val, &funcopt, &ignore, &num_values, &cfgv_res_)) return cfgv_res_; }
#endif
