/* force-included first in every proof TU (before the real source) */
#ifndef CFGV_PRE_H
#define CFGV_PRE_H
#include <stddef.h>
/* nondeterministic inputs */
int nondet_int(void);
unsigned int nondet_uint(void);
long nondet_long(void);
unsigned long nondet_ulong(void);
char nondet_char(void);
unsigned char nondet_uchar(void);
_Bool nondet_bool(void);
size_t nondet_size(void);
double nondet_double(void);
void *nondet_ptr(void);
/* obligation with property tag; the text is the stable key of the obligation */
#define CHECK(tag, cond, text) __CPROVER_assert((cond), tag ": " text)
#define KFCHECK(id, tag, cond, text) __CPROVER_assert((cond), "KF[" id "] " tag ": " text)
#define CANARY(unit) __CPROVER_assert(0, "CANARY " unit)
#define ASSUME(c) __CPROVER_assume(c)
#endif
