/* contracts/confuse_contracts.h - function contracts in CBMC's contract language, attached to FORWARD DECLARATIONS so that
 * /repo/src/confuse.c needs no edit (DESIGN 2.1).  Included before the real source by the S1 units only
 * (-DCFGV_DFCC_CONTRACTS); goto-instrument --dfcc --enforce-contract checks each body against its contract, including
 * the frame (assigns clause): nothing outside the listed locations is written. */
#ifndef CFGV_CONFUSE_CONTRACTS_H
#define CFGV_CONFUSE_CONTRACTS_H
#include <config.h>
#include <stdlib.h>
#include "confuse.h"
extern __CPROVER_thread_local int __CPROVER_errno;     /* what errno is in CBMC's library (*__errno_location()) */

/* contract::cfg_addval - store extension.  Frame: the option's count, slot array pointer and flag word; the slot array
 * object itself (it may be released by realloc); nothing else. */
static cfg_value_t *cfg_addval(cfg_opt_t *opt)
__CPROVER_requires(__CPROVER_is_fresh(opt, sizeof(*opt)))
#ifndef CFGV_NV
#define CFGV_NV 1
#endif
__CPROVER_requires(opt->nvalues == CFGV_NV)         /* one unit per count: a symbolic allocation size does not terminate (DESIGN 10.4) */
__CPROVER_requires(CFGV_NV == 0 ? opt->values == NULL : __CPROVER_is_fresh(opt->values, CFGV_NV * sizeof(cfg_value_t *)))
__CPROVER_assigns(opt->nvalues, opt->values, opt->flags; opt->values != NULL: __CPROVER_object_whole(opt->values))
__CPROVER_frees(opt->values)
__CPROVER_ensures(__CPROVER_return_value == NULL ? opt->nvalues == __CPROVER_old(opt->nvalues) && opt->flags == __CPROVER_old(opt->flags)
                  : opt->nvalues == __CPROVER_old(opt->nvalues) + 1 && opt->values[opt->nvalues - 1] == __CPROVER_return_value
                    && __CPROVER_return_value->number == 0 && opt->flags == (__CPROVER_old(opt->flags) | CFGF_MODIFIED));

/* contract::cfg_set_error_function / cfg_set_print_filter_func / cfg_opt_set_print_func - hook setters.
 * Frame: exactly the one field. */
cfg_errfunc_t cfg_set_error_function(cfg_t *cfg, cfg_errfunc_t errfunc)
__CPROVER_requires(cfg == NULL || __CPROVER_is_fresh(cfg, sizeof(*cfg)))
__CPROVER_assigns(cfg != NULL: cfg->errfunc; __CPROVER_errno)
__CPROVER_ensures(cfg == NULL ? __CPROVER_return_value == NULL : (cfg->errfunc == errfunc && __CPROVER_return_value == __CPROVER_old(cfg->errfunc)));

cfg_print_filter_func_t cfg_set_print_filter_func(cfg_t *cfg, cfg_print_filter_func_t pff)
__CPROVER_requires(cfg == NULL || __CPROVER_is_fresh(cfg, sizeof(*cfg)))
__CPROVER_assigns(cfg != NULL: cfg->pff; __CPROVER_errno)
__CPROVER_ensures(cfg == NULL ? __CPROVER_return_value == NULL : (cfg->pff == pff && __CPROVER_return_value == __CPROVER_old(cfg->pff)));

cfg_print_func_t cfg_opt_set_print_func(cfg_opt_t *opt, cfg_print_func_t pf)
__CPROVER_requires(opt == NULL || __CPROVER_is_fresh(opt, sizeof(*opt)))
__CPROVER_assigns(opt != NULL: opt->pf; __CPROVER_errno)
__CPROVER_ensures(opt == NULL ? __CPROVER_return_value == NULL : (opt->pf == pf && __CPROVER_return_value == __CPROVER_old(opt->pf)));

/* contract::cfg_opt_size / cfg_title / cfg_name / cfg_opt_name / cfg_opt_getcomment - pure getters: empty frame */
unsigned int cfg_opt_size(cfg_opt_t *opt)
__CPROVER_requires(opt == NULL || __CPROVER_is_fresh(opt, sizeof(*opt)))
__CPROVER_assigns()
__CPROVER_ensures(__CPROVER_return_value == (opt ? opt->nvalues : 0));

const char *cfg_title(cfg_t *cfg)
__CPROVER_requires(cfg == NULL || __CPROVER_is_fresh(cfg, sizeof(*cfg)))
__CPROVER_assigns()
__CPROVER_ensures(__CPROVER_return_value == (cfg ? cfg->title : NULL));

/* contract::cfg_opt_getnint - typed getter: empty frame apart from errno */
signed long cfg_opt_getnint(cfg_opt_t *opt, unsigned int index)
__CPROVER_requires(opt == NULL || (__CPROVER_is_fresh(opt, sizeof(*opt)) && opt->values == NULL && opt->simple_value.number == NULL))
__CPROVER_assigns(__CPROVER_errno)
__CPROVER_ensures(__CPROVER_return_value == 0);
/* ---- loops closed by loop contracts (the loop's own contract is the text of CFG_VERIF_LOOP(tag) in cfg_verif_hooks.h)
 * contract::cfg_numopts / cfg_getnopt: an option array is a block whose entry number cfgv_term_k (ghost) is the first one
 * without a name; the array may hold up to CFGV_MAXOPTS entries.  Frame: empty.
 * The "twin" units (-DCFGV_TWIN) state the same precondition without a quantifier for arrays of at most 3 options, for
 * the SAT back end: an SMT back end that cannot prove a quantified goal answers "unknown", not a counterexample. */
#ifndef CFGV_MAXOPTS
#define CFGV_MAXOPTS 1024
#endif
extern int cfgv_term_k;
#ifdef CFGV_TWIN
#define CFGV_OPTARRAY(a) (0 <= cfgv_term_k && cfgv_term_k <= 3 && __CPROVER_is_fresh(a, 4 * sizeof(cfg_opt_t)) && (a)[cfgv_term_k].name == NULL \
	&& (cfgv_term_k <= 0 || (a)[0].name != NULL) && (cfgv_term_k <= 1 || (a)[1].name != NULL) && (cfgv_term_k <= 2 || (a)[2].name != NULL))
#else
#define CFGV_OPTARRAY(a) (0 <= cfgv_term_k && cfgv_term_k < CFGV_MAXOPTS && __CPROVER_is_fresh(a, CFGV_MAXOPTS * sizeof(cfg_opt_t)) && (a)[cfgv_term_k].name == NULL \
	&& __CPROVER_forall { int k_; (0 <= k_ && k_ < cfgv_term_k) ==> (a)[k_].name != NULL })
#endif
int cfg_numopts(cfg_opt_t *opts)
__CPROVER_requires(opts == NULL || CFGV_OPTARRAY(opts))
__CPROVER_assigns()
__CPROVER_ensures(__CPROVER_return_value == (opts ? cfgv_term_k : 0));

cfg_opt_t *cfg_getnopt(cfg_t *cfg, unsigned int index)
__CPROVER_requires(cfg == NULL || (__CPROVER_is_fresh(cfg, sizeof(*cfg)) && (cfg->opts == NULL || CFGV_OPTARRAY(cfg->opts))))
__CPROVER_assigns()
__CPROVER_ensures(__CPROVER_return_value == ((cfg && cfg->opts && index < (unsigned int)cfgv_term_k) ? &cfg->opts[index] : NULL));
/* contract::cfg_num - checked against contract::cfg_numopts (the call is REPLACED by the callee's contract: its precondition
 * is asserted at the call site, its postcondition assumed; the callee's body is not looked at) */
unsigned int cfg_num(cfg_t *cfg)
__CPROVER_requires(cfg == NULL || (__CPROVER_is_fresh(cfg, sizeof(*cfg)) && (cfg->opts == NULL || CFGV_OPTARRAY(cfg->opts))))
__CPROVER_assigns()
__CPROVER_ensures(__CPROVER_return_value == ((cfg && cfg->opts) ? (unsigned int)cfgv_term_k : 0u));
/* contract::cfg_indent - exactly two blanks per depth level through fprintf(fp, "  "), for EVERY depth 0 .. 2^29 (the bound
 * only keeps the ghost counter from overflowing).  The stream is a ghost counter: the fprintf carrier in harness/dfcc.c
 * checks the stream and the format and adds the blanks.  Frame: the ghost counter only. */
extern int cfgv_blanks; extern _Bool cfgv_badout; extern FILE *cfgv_fp;
#define CFGV_MAXDEPTH (1 << 29)
static void cfg_indent(FILE *fp, int indent)
__CPROVER_requires(0 <= indent && indent <= CFGV_MAXDEPTH && fp == cfgv_fp && cfgv_blanks == 0 && !cfgv_badout)
__CPROVER_assigns(cfgv_blanks, cfgv_badout)
__CPROVER_ensures(cfgv_blanks == 2 * indent && !cfgv_badout);
/* contract::cfg_getopt_leaf - the FIRST entry of the option array whose name equals the name asked for, NULL if none;
 * equality is case-insensitive exactly when the context carries CFGF_NOCASE.  String equality is abstract: entry k's
 * name is the k-th byte of the ghost block cfgv_names (so the carriers of strcmp / strcasecmp in harness/dfcc.c recover k
 * from the pointer), cfgv_eq_cs[k] / cfgv_eq_ci[k] are the arbitrary verdicts of the two comparisons of entry k with the
 * name asked for, and the carriers check that the second argument IS the name asked for.  Frame: empty. */
extern int cfgv_first; extern char cfgv_names[CFGV_MAXOPTS]; extern _Bool cfgv_eq_cs[CFGV_MAXOPTS], cfgv_eq_ci[CFGV_MAXOPTS]; extern const char *cfgv_asked;
#define CFGV_EQ(c, j) ((((c)->flags & CFGF_NOCASE) == CFGF_NOCASE) ? cfgv_eq_ci[j] : cfgv_eq_cs[j])
#ifdef CFGV_TWIN
#define CFGV_NAMED(a) (0 <= cfgv_term_k && cfgv_term_k <= 3 && __CPROVER_is_fresh(a, 4 * sizeof(cfg_opt_t)) && (a)[cfgv_term_k].name == NULL \
	&& (cfgv_term_k <= 0 || (a)[0].name == &cfgv_names[0]) && (cfgv_term_k <= 1 || (a)[1].name == &cfgv_names[1]) && (cfgv_term_k <= 2 || (a)[2].name == &cfgv_names[2]))
#define CFGV_FIRST(c) (0 <= cfgv_first && cfgv_first <= cfgv_term_k && (cfgv_first == cfgv_term_k || CFGV_EQ(c, cfgv_first)) \
	&& (cfgv_first <= 0 || !CFGV_EQ(c, 0)) && (cfgv_first <= 1 || !CFGV_EQ(c, 1)) && (cfgv_first <= 2 || !CFGV_EQ(c, 2)))
#else
#define CFGV_NAMED(a) (0 <= cfgv_term_k && cfgv_term_k < CFGV_MAXOPTS && __CPROVER_is_fresh(a, CFGV_MAXOPTS * sizeof(cfg_opt_t)) && (a)[cfgv_term_k].name == NULL \
	&& __CPROVER_forall { int k_; (0 <= k_ && k_ < cfgv_term_k) ==> (a)[k_].name == &cfgv_names[k_] })
#define CFGV_FIRST(c) (0 <= cfgv_first && cfgv_first <= cfgv_term_k && (cfgv_first == cfgv_term_k || CFGV_EQ(c, cfgv_first)) \
	&& __CPROVER_forall { int j_; (0 <= j_ && j_ < cfgv_first) ==> !CFGV_EQ(c, j_) })
#endif
static cfg_opt_t *cfg_getopt_leaf(cfg_t *cfg, const char *name)
__CPROVER_requires(__CPROVER_is_fresh(cfg, sizeof(*cfg)) && name == cfgv_asked && !__CPROVER_same_object(cfgv_asked, cfgv_names))
__CPROVER_requires(cfg->opts == NULL || (CFGV_NAMED(cfg->opts) && CFGV_FIRST(cfg)))
__CPROVER_assigns()
__CPROVER_ensures(__CPROVER_return_value == ((cfg->opts && cfgv_first < cfgv_term_k) ? &cfg->opts[cfgv_first] : NULL));
/* contract::cfg_print_pff_indent - every entry of the option array is dealt with exactly once, in declaration order:
 * the effective filter (the context's own, else the inherited one) is asked first if there is one, and exactly the
 * entries it does not reject go to the option printer, with the effective filter, the same stream and the same depth; the
 * result is the sum of the option printer's results.  The order / once / arguments part is checked by the monitor in the
 * carriers (harness/dfcc.c, carriers/dfcc_print_carriers.c: assertions), the contract says that the monitor ends at the
 * terminator.  Filter verdicts and printer results are arbitrary per entry.  Frame: the monitor only. */
extern int cfgv_pos, cfgv_sum, cfgv_depth; extern _Bool cfgv_fasked; extern cfg_t *cfgv_pc; extern FILE *cfgv_fp; extern cfg_print_filter_func_t cfgv_eff;
int cfgv_filter_own(cfg_t *cfg, cfg_opt_t *opt); int cfgv_filter_inh(cfg_t *cfg, cfg_opt_t *opt);
static int cfg_print_pff_indent(cfg_t *cfg, FILE *fp, cfg_print_filter_func_t fb_pff, int indent)
__CPROVER_requires(__CPROVER_is_fresh(cfg, sizeof(*cfg)) && CFGV_OPTARRAY(cfg->opts) && cfg == cfgv_pc && fp == cfgv_fp && indent == cfgv_depth)
__CPROVER_requires((cfg->pff == NULL || cfg->pff == cfgv_filter_own) && (fb_pff == NULL || fb_pff == cfgv_filter_inh))
__CPROVER_requires(cfgv_eff == (cfg->pff ? cfg->pff : fb_pff) && cfgv_pos == 0 && !cfgv_fasked && cfgv_sum == 0)
__CPROVER_assigns(cfgv_pos, cfgv_fasked, cfgv_sum)
__CPROVER_ensures(cfgv_pos == cfgv_term_k && !cfgv_fasked && __CPROVER_return_value == cfgv_sum);
/* contract::cfg_print / cfg_print_indent - the public entries: print the context with no inherited filter at depth 0 / at
 * the given depth.  Checked against contract::cfg_print_pff_indent (--replace-call-with-contract: the callee's
 * precondition - no inherited filter, the caller's stream and depth - is an obligation at the call site). */
#define CFGV_PRINT_PRE(cfg, fp, depth) (__CPROVER_is_fresh(cfg, sizeof(*cfg)) && CFGV_OPTARRAY(cfg->opts) && cfg == cfgv_pc && fp == cfgv_fp && (depth) == cfgv_depth \
	&& (cfg->pff == NULL || cfg->pff == cfgv_filter_own) && cfgv_eff == cfg->pff && cfgv_pos == 0 && !cfgv_fasked && cfgv_sum == 0)
int cfg_print_indent(cfg_t *cfg, FILE *fp, int indent)
__CPROVER_requires(CFGV_PRINT_PRE(cfg, fp, indent))
__CPROVER_assigns(cfgv_pos, cfgv_fasked, cfgv_sum)
__CPROVER_ensures(cfgv_pos == cfgv_term_k && !cfgv_fasked && __CPROVER_return_value == cfgv_sum);
int cfg_print(cfg_t *cfg, FILE *fp)
__CPROVER_requires(CFGV_PRINT_PRE(cfg, fp, 0))
__CPROVER_assigns(cfgv_pos, cfgv_fasked, cfgv_sum)
__CPROVER_ensures(cfgv_pos == cfgv_term_k && !cfgv_fasked && __CPROVER_return_value == cfgv_sum);
#endif
