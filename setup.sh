#!/bin/bash
# offline setup: tool presence + must-fire checks of the extractors.  Nothing is downloaded or installed.
set -e
cd "$(dirname "$0")"
for t in cbmc goto-cc goto-instrument flex gcc python3; do command -v $t >/dev/null || { echo "missing tool $t"; exit 1; }; done
cbmc --version | head -1
python3 -c "import units; print(len(units.UNITS), 'units registered')"
if [ -x tools/selfcheck.sh ]; then tools/selfcheck.sh; fi
echo setup ok
