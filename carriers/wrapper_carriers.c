/* contract carriers for the opt-level operations the by-name wrappers forward to (each has its own unit): the call is
 * recorded (which operation, every argument) and the verdict is a ghost value fixed by the harness. */
#include <stdio.h>
#include "confuse.h"
int g_w_calls, g_w_kind; cfg_opt_t *g_w_opt; cfg_t *g_w_cfg; long g_w_long; double g_w_double; cfg_bool_t g_w_bool; const char *g_w_str;
unsigned g_w_index; int g_w_ret; void *g_w_ptr; FILE *g_w_fp; int g_w_indent; cfg_print_filter_func_t g_w_pff; cfg_print_func_t g_w_pf, g_w_pf_ret;
unsigned g_w_n; char **g_w_values;
cfg_opt_t *g_secidx_result; long g_secidx_index; cfg_t *g_secidx_cfg; const char *g_secidx_name; int g_secidx_calls; int g_secidx_had_index;
#define REC(k) do { if (g_w_calls < 1000) g_w_calls++; g_w_kind = (k); } while (0)
int cfg_opt_setnint(cfg_opt_t *opt, long int value, unsigned int index) { REC(1); g_w_opt = opt; g_w_long = value; g_w_index = index; return g_w_ret; }
int cfg_opt_setnfloat(cfg_opt_t *opt, double value, unsigned int index) { REC(2); g_w_opt = opt; g_w_double = value; g_w_index = index; return g_w_ret; }
int cfg_opt_setnbool(cfg_opt_t *opt, cfg_bool_t value, unsigned int index) { REC(3); g_w_opt = opt; g_w_bool = value; g_w_index = index; return g_w_ret; }
int cfg_opt_setnstr(cfg_opt_t *opt, const char *value, unsigned int index) { REC(4); g_w_opt = opt; g_w_str = value; g_w_index = index; return g_w_ret; }
int cfg_opt_setcomment(cfg_opt_t *opt, char *comment) { REC(5); g_w_opt = opt; g_w_str = comment; return g_w_ret; }
int cfg_opt_rmnsec(cfg_opt_t *opt, unsigned int index) { REC(6); g_w_opt = opt; g_w_index = index; return g_w_ret; }
int cfg_opt_rmtsec(cfg_opt_t *opt, const char *title) { REC(7); g_w_opt = opt; g_w_str = title; return g_w_ret; }
int cfg_opt_setmulti(cfg_t *cfg, cfg_opt_t *opt, unsigned int nvalues, char **values) { REC(8); g_w_cfg = cfg; g_w_opt = opt; g_w_n = nvalues; g_w_values = values; return g_w_ret; }
cfg_print_func_t cfg_opt_set_print_func(cfg_opt_t *opt, cfg_print_func_t pf) { REC(9); g_w_opt = opt; g_w_pf = pf; return g_w_pf_ret; }
int cfg_opt_print_pff_indent(cfg_opt_t *opt, FILE *fp, cfg_print_filter_func_t pff, int indent) { REC(10); g_w_opt = opt; g_w_fp = fp; g_w_pff = pff; g_w_indent = indent; return g_w_ret; }
int cfg_print_pff_indent(cfg_t *cfg, FILE *fp, cfg_print_filter_func_t pff, int indent) { REC(11); g_w_cfg = cfg; g_w_fp = fp; g_w_pff = pff; g_w_indent = indent; return g_w_ret; }
cfg_opt_t *cfg_getopt_secidx(cfg_t *cfg, const char *name, long int *index)
{
	if (g_secidx_calls < 1000) g_secidx_calls++;
	g_secidx_cfg = cfg; g_secidx_name = name; g_secidx_had_index = index != NULL;
	if (index) *index = g_secidx_index;
	return g_secidx_result;
}
