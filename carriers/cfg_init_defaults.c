/* contract carrier for cfg_init_defaults(cfg) (static in confuse.c; enforced by the init_defaults units):
 * materialises the declared defaults of every option of the context; touches nothing outside it. */
#include "confuse.h"
int g_initdef_calls;
cfg_t *g_initdef_arg;
extern int g_initdef_flags_seen;      /* ghost: the context flags at the time of the call */
void cfg_init_defaults(cfg_t *cfg)
{
	if (g_initdef_calls < 1000) g_initdef_calls++;
	g_initdef_arg = cfg;
	g_initdef_flags_seen = cfg ? cfg->flags : 0;
}
