/* carriers/ref_strings.h - bounded reference implementations of the libc string routines the code under
 * proof calls (assumed contracts: they behave as C11/POSIX specify).  Defined in the proof TU so that they
 * take the place of CBMC's built-in models (which blow up on this code, DESIGN 2.2).  Every loop is closed
 * by --unwind N --unwinding-assertions of the unit; results of strdup/strndup are exact-size unless
 * CFGV_FIXED_DUP is defined (then CFGV_FIXED_DUP bytes).  setup.sh compares each natively with glibc. */
#ifndef CFGV_REF_STRINGS_H
#define CFGV_REF_STRINGS_H
#include <stdlib.h>
#include <string.h>
#include <strings.h>

/* exact-size result buffers, size split into constant cases (symbolic malloc sizes are very expensive) */
#ifndef CFGV_DUPMAX
#define CFGV_DUPMAX 8
#endif
static char *cfgv_dup_alloc(size_t n)
{
	if (n == 1) return malloc(1);
	if (n == 2) return malloc(2);
	if (n == 3) return malloc(3);
	if (n == 4) return malloc(4);
	if (n == 5) return malloc(5);
	if (n == 6) return malloc(6);
	if (n == 7) return malloc(7);
	if (n == 8) return malloc(8);
	if (n == 9) return malloc(9);
	if (n == 10) return malloc(10);
	if (n == 11) return malloc(11);
	if (n == 12) return malloc(12);
	__CPROVER_assert(0, "BOUND: duplicated string longer than the case split of the reference strdup");
	return malloc(n);
}
size_t strlen(const char *s)
{
	size_t n = 0;
	while (s[n]) n++;
	return n;
}
static int cfgv_lc(int c) { return (c >= 'A' && c <= 'Z') ? c - 'A' + 'a' : c; }
int strcmp(const char *a, const char *b)
{
	size_t i = 0;
	while (a[i] && a[i] == b[i]) i++;
	return (int)(unsigned char)a[i] - (int)(unsigned char)b[i];
}
int strcasecmp(const char *a, const char *b)
{
	size_t i = 0;
	while (a[i] && cfgv_lc((unsigned char)a[i]) == cfgv_lc((unsigned char)b[i])) i++;
	return cfgv_lc((unsigned char)a[i]) - cfgv_lc((unsigned char)b[i]);
}
size_t strcspn(const char *s, const char *rej)
{
	size_t n = 0;
	while (s[n]) {
		size_t j = 0;
		while (rej[j]) { if (rej[j] == s[n]) return n; j++; }
		n++;
	}
	return n;
}
size_t strspn(const char *s, const char *acc)
{
	size_t n = 0;
	while (s[n]) {
		size_t j = 0; int hit = 0;
		while (acc[j]) { if (acc[j] == s[n]) { hit = 1; break; } j++; }
		if (!hit) return n;
		n++;
	}
	return n;
}
char *strchr(const char *s, int c)
{
	size_t i = 0;
	for (;; i++) {
		if (s[i] == (char)c) return (char *)s + i;
		if (!s[i]) return NULL;
	}
}
#ifdef CFGV_DUP_FAIL_GHOST
_Bool cfgv_dup_fail;    /* ghost: the next strdup/strndup fails (units that run with --no-malloc-may-fail) */
#endif
char *strdup(const char *s)
{
	size_t n = strlen(s), i;
#ifdef CFGV_DUP_FAIL_GHOST
	if (cfgv_dup_fail) return NULL;
#endif
#ifdef CFGV_FIXED_DUP
	char *r = malloc(CFGV_FIXED_DUP);
	__CPROVER_assert(n + 1 <= CFGV_FIXED_DUP, "BOUND: strdup source fits the fixed result buffer");
#else
	char *r = cfgv_dup_alloc(n + 1);
#endif
	if (!r) return NULL;
	for (i = 0; i < n; i++) r[i] = s[i];
	r[n] = 0;
	return r;
}
char *strndup(const char *s, size_t max)
{
	size_t n = 0, i;
	char *r;
#ifdef CFGV_DUP_FAIL_GHOST
	if (cfgv_dup_fail) return NULL;
#endif
	while (n < max && s[n]) n++;
#ifdef CFGV_FIXED_DUP
	r = malloc(CFGV_FIXED_DUP);
	__CPROVER_assert(n + 1 <= CFGV_FIXED_DUP, "BOUND: strndup source fits the fixed result buffer");
#else
	r = cfgv_dup_alloc(n + 1);
#endif
	if (!r) return NULL;
	for (i = 0; i < n; i++) r[i] = s[i];
	r[n] = 0;
	return r;
}
#ifndef CFGV_NO_REF_STRTOL
/* reference strtol, C11 7.22.1.4 (C locale): white space, sign, optional 0x for base 16 / base 0, digits;
 * no digits -> endptr = nptr, result 0; overflow -> LONG_MAX/LONG_MIN and errno = ERANGE; errno untouched otherwise */
#include <errno.h>
#include <limits.h>
long strtol(const char *nptr, char **endptr, int base)
{
	const char *p = nptr;
	int neg = 0, any = 0, ovf = 0;
	unsigned long acc = 0, lim;
	while (*p == ' ' || (*p >= '\t' && *p <= '\r')) p++;
	if (*p == '-') { neg = 1; p++; } else if (*p == '+') p++;
	if ((base == 0 || base == 16) && p[0] == '0' && (p[1] == 'x' || p[1] == 'X')) {
		char c = p[2];
		if ((c >= '0' && c <= '9') || (c >= 'a' && c <= 'f') || (c >= 'A' && c <= 'F')) { p += 2; base = 16; }
	}
	if (base == 0) base = (p[0] == '0') ? 8 : 10;
	lim = neg ? (unsigned long)LONG_MAX + 1UL : (unsigned long)LONG_MAX;
	for (;; p++) {
		int d;
		char c = *p;
		if (c >= '0' && c <= '9') d = c - '0';
		else if (c >= 'a' && c <= 'z') d = c - 'a' + 10;
		else if (c >= 'A' && c <= 'Z') d = c - 'A' + 10;
		else break;
		if (d >= base) break;
		any = 1;
		if (ovf || acc > (lim - (unsigned long)d) / (unsigned long)base) ovf = 1;
		else acc = acc * (unsigned long)base + (unsigned long)d;
	}
	if (endptr) *endptr = (char *)(any ? p : nptr);
	if (ovf) { errno = ERANGE; return neg ? LONG_MIN : LONG_MAX; }
	if (neg) return acc ? -(long)(acc - 1UL) - 1L : 0L;
	return (long)acc;
}
#endif

#ifndef CFGV_NO_REF_MEMMOVE
/* reference memmove (C11 7.24.2.2).  CBMC's built-in model (array_copy / array_replace) silently leaves the
 * destination unchanged when the offset into a pointer array is symbolic (seen on cfg_opt_rmnsec called from
 * cfg_opt_rmtsec: a false alarm), so the two callers in confuse.c get a plain loop: word-wise for pointer arrays,
 * byte-wise otherwise. */
void *memmove(void *dest, const void *src, size_t n)
{
	size_t i;
	_Bool fwd = !__CPROVER_same_object(dest, src) || __CPROVER_POINTER_OFFSET(dest) <= __CPROVER_POINTER_OFFSET(src);
	if (n % sizeof(void *) == 0 && __CPROVER_POINTER_OFFSET(dest) % sizeof(void *) == 0 && __CPROVER_POINTER_OFFSET(src) % sizeof(void *) == 0) {
		void **d = (void **)dest; void *const *s = (void *const *)src;
		size_t w = n / sizeof(void *);
		if (fwd) for (i = 0; i < w; i++) d[i] = s[i];
		else for (i = w; i > 0; i--) d[i - 1] = s[i - 1];
	} else {
		unsigned char *d = (unsigned char *)dest; const unsigned char *s = (const unsigned char *)src;
		if (fwd) for (i = 0; i < n; i++) d[i] = s[i];
		else for (i = n; i > 0; i--) d[i - 1] = s[i - 1];
	}
	return dest;
}
#endif
#endif

#ifndef CFGV_REF_STRINGS2_H
#define CFGV_REF_STRINGS2_H
/* more reference string routines (C11 7.24), used by the path units */
char *strcpy(char *d, const char *s) { size_t i = 0; for (;; i++) { d[i] = s[i]; if (!s[i]) break; } return d; }
char *strcat(char *d, const char *s) { size_t n = strlen(d), i = 0; for (;; i++) { d[n + i] = s[i]; if (!s[i]) break; } return d; }
char *strncpy(char *d, const char *s, size_t n)
{
	size_t i = 0;
	for (; i < n && s[i]; i++) d[i] = s[i];
	for (; i < n; i++) d[i] = 0;
	return d;
}
#endif
