/* contract carrier for cfg_free(cfg) where the function under proof may hand over a context it has only half built:
 *   requires  cfg != NULL => the context is fully built: it has an option array (cfg_free walks it) and no shared search path
 *   ensures   everything the context owns is released exactly once; returns CFG_SUCCESS */
#include <stdlib.h>
#include <errno.h>
#include "confuse.h"
int g_free_calls;
cfg_t *g_free_last;
cfg_t *g_free_log[4];
int cfg_free(cfg_t *cfg)
{
	if (!cfg) { errno = EINVAL; return CFG_FAIL; }
	__CPROVER_assert(cfg->opts != NULL, "C18,C02,C07: cfg_free is given a fully built context only (it walks the option array)");
	if (g_free_calls < 4) g_free_log[g_free_calls] = cfg;
	if (g_free_calls < 1000) g_free_calls++;
	g_free_last = cfg;
	if (cfg->comment) free(cfg->comment);
	if (cfg->opts) free(cfg->opts);
	if (cfg->name) free(cfg->name);
	if (cfg->title) free(cfg->title);
	if (cfg->filename) free(cfg->filename);
	free(cfg);
	return CFG_SUCCESS;
}
