/* contract carrier for cfg_dupopt_array(opts) (static in confuse.c; enforced by the dupopt units, C16):
 *   returns NULL (allocation failure) or a FRESH array (never the argument) holding private copies;
 *   the argument is not modified.  In carrier worlds the copy is a single terminator entry. */
#include <stdlib.h>
#include "confuse.h"
int g_dup_calls;
cfg_opt_t *g_dup_arg;
cfg_opt_t *g_dup_result;
cfg_opt_t *cfg_dupopt_array(cfg_opt_t *opts)
{
	cfg_opt_t *r = calloc(1, sizeof(cfg_opt_t));
	if (g_dup_calls < 1000) g_dup_calls++;
	g_dup_arg = opts;
	g_dup_result = r;
	return r;
}
