/* contract carriers for cfg_searchpath / cfg_tilde_expand as seen from cfg_parse (enforced by the file-name units) */
#include "confuse.h"
int g_sp_calls, g_te_calls; const char *g_res_name; cfg_searchpath_t *g_sp_list;
char *cfgv_resolved(void);
char *cfg_searchpath(cfg_searchpath_t *p, const char *file) { g_sp_calls++; g_sp_list = p; g_res_name = file; return cfgv_resolved(); }
char *cfg_tilde_expand(const char *filename) { g_te_calls++; g_res_name = filename; return cfgv_resolved(); }
