/* carriers/parse_ghost.h - ghost monitor shared by the parser carriers and the parser harness */
#ifndef CFGV_PARSE_GHOST_H
#define CFGV_PARSE_GHOST_H
#include "confuse.h"
enum { EV_NONE, EV_LOOKUP, EV_SETOPT, EV_ADDOPT, EV_ADDVAL, EV_CALL, EV_FREEVAL, EV_SETCOMMENT, EV_VALID, EV_RECURSE };
typedef struct { int kind; const void *a; const void *b; long c; } cfgv_event_t;
#define CFGV_MAXEV 8
extern cfgv_event_t g_ev[CFGV_MAXEV];
extern int g_nev;
void cfgv_log(int kind, const void *a, const void *b, long c);
/* verdicts of the carriers: ghost inputs fixed by the harness before the step */
extern cfg_opt_t *g_lookup_result;     /* cfg_getopt */
extern _Bool g_setopt_ok;              /* cfg_setopt succeeds */
extern cfg_value_t *g_setopt_val;      /* the slot it returns */
extern cfg_opt_t *g_addopt_result;     /* cfg_addopt */
extern _Bool g_addval_ok;              /* cfg_addval on the argument vector */
extern int g_call_ret;                 /* call_function */
extern int g_fn_n;                     /* ghost: number of collected call arguments */
extern cfg_value_t *g_fn_val[3];       /* ghost: the collected argument slots (owned by the vector) */
extern int g_diag_issued_by_lookup;
extern cfg_opt_t *g_argvec;
extern _Bool g_lookup_by_name;
#endif
