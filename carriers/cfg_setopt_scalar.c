/* contract carrier for cfg_setopt(cfg, opt, text) on a NON-SECTION option without parse callback, as used by
 * cfg_opt_setmulti.  The clauses are the ones the setopt_* units enforce on the real function:
 *   - a pristine default (RESET) is dropped first: values released, RESET cleared
 *   - list, multi or empty option: ONE slot is appended (allocation may fail -> NULL, option well-formed)
 *     scalar holding a value: slot 0 is the target
 *   - conversion fails (ghost verdict g_so_failpos == call number): NULL, a diagnostic is delivered; an appended
 *     slot stays appended
 *   - success: the converted value (ghost g_so_value[call]) is in the slot, MODIFIED set, the slot is returned */
#include <stdlib.h>
#include "confuse.h"
int g_so_calls;
int g_so_failpos = -1;
long g_so_value[4];
const char *g_so_text[4];
int g_so_diag;
cfg_value_t *cfg_setopt(cfg_t *cfg, cfg_opt_t *opt, const char *value)
{
	int me = g_so_calls;
	cfg_value_t *val;
	(void)cfg;
	if (g_so_calls < 4) g_so_text[g_so_calls] = value;
	g_so_calls++;
	__CPROVER_assert(opt != NULL && opt->type != CFGT_SEC, "carrier cfg_setopt_scalar: used for non-section options only");
	if (opt->flags & CFGF_RESET) {
		cfg_free_value(opt);
		opt->flags &= ~CFGF_RESET;
	}
	if (opt->nvalues == 0 || (opt->flags & (CFGF_LIST | CFGF_MULTI))) {
		/* an allocation failure inside cfg_setopt is observationally the "conversion fails" case (NULL, slot maybe
		 * appended), so the carrier's own allocations do not fail: the failing call is chosen by g_so_failpos only */
		cfg_value_t **nv = malloc((opt->nvalues + 1) * sizeof(cfg_value_t *));
		__CPROVER_assume(nv != NULL);
		for (unsigned i = 0; i < opt->nvalues; i++) nv[i] = opt->values[i];
		if (opt->values) free(opt->values);
		opt->values = nv;
		val = calloc(1, sizeof(cfg_value_t));
		__CPROVER_assume(val != NULL);
		opt->values[opt->nvalues++] = val;
		opt->flags |= CFGF_MODIFIED;
	} else
		val = opt->values[0];
	if (me == g_so_failpos) { g_so_diag++; return NULL; }
	val->number = me < 4 ? g_so_value[me] : 0;
	opt->flags |= CFGF_MODIFIED;
	return val;
}
