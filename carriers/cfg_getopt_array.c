/* contract carrier for cfg_getopt_array(rootopts, flags, path) (static in confuse.c; enforced by the getopt_array units) */
#include "confuse.h"
int g_ga_calls; cfg_opt_t *g_ga_opts; int g_ga_flags; const char *g_ga_name; cfg_opt_t *g_ga_result;
cfg_opt_t *cfg_getopt_array(cfg_opt_t *rootopts, int cfg_flags, const char *name)
{
	g_ga_calls++; g_ga_opts = rootopts; g_ga_flags = cfg_flags; g_ga_name = name;
	return g_ga_result;
}
