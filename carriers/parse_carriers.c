/* contract carriers for the callees of cfg_parse_internal(): each logs an event in the ghost monitor, asserts what
 * the caller owes it (precondition) and returns its ghost verdict.  The contracts are the ones enforced on the
 * real functions by the store / setopt / resolver units. */
#include <stdlib.h>
#include <errno.h>
#include "parse_ghost.h"
cfgv_event_t g_ev[CFGV_MAXEV];
int g_nev;
void cfgv_log(int kind, const void *a, const void *b, long c)
{
	if (g_nev < CFGV_MAXEV) { g_ev[g_nev].kind = kind; g_ev[g_nev].a = a; g_ev[g_nev].b = b; g_ev[g_nev].c = c; }
	if (g_nev < 1000) g_nev++;
}
cfg_opt_t *g_lookup_result;
int g_diag_issued_by_lookup;
_Bool g_lookup_by_name;      /* scripted runs: only the name "i..." is declared */
cfg_opt_t *cfg_getopt(cfg_t *cfg, const char *name)
{
	cfgv_log(EV_LOOKUP, cfg, name, 0);
	if (g_lookup_by_name) {
		if (name && name[0] == 'i') return g_lookup_result;
		if (cfg && !(cfg->flags & CFGF_IGNORE_UNKNOWN)) { cfg_error(cfg, "no such option '%s'", name); g_diag_issued_by_lookup++; }
		return NULL;
	}
	/* contract::cfg_getopt: an unresolved name is reported unless the context ignores unknown options */
	if (!g_lookup_result && cfg && !(cfg->flags & CFGF_IGNORE_UNKNOWN)) { cfg_error(cfg, "no such option '%s'", name); g_diag_issued_by_lookup++; }
	return g_lookup_result;
}
_Bool g_setopt_ok;
cfg_value_t *g_setopt_val;
cfg_value_t *cfg_setopt(cfg_t *cfg, cfg_opt_t *opt, const char *value)
{
	cfgv_log(EV_SETOPT, opt, value, opt ? (long)opt->flags : 0);
	__CPROVER_assert(cfg != NULL && opt != NULL, "C01: the parser stores values only into a context and an option it resolved");
	if (!g_setopt_ok) { cfg_error(cfg, "invalid value for option"); return NULL; }   /* contract: a refused text is reported (C04/C06) */
	opt->flags &= ~CFGF_RESET;
	opt->flags |= CFGF_MODIFIED;
	return g_setopt_val;
}
cfg_opt_t *g_addopt_result;
cfg_opt_t *cfg_addopt(cfg_t *cfg, char *key)
{
	cfgv_log(EV_ADDOPT, cfg, key, 0);
	return g_addopt_result;
}
_Bool g_addval_ok;
int g_fn_n;
cfg_value_t *g_fn_val[3];
cfg_value_t *cfg_addval(cfg_opt_t *opt)
{
	cfg_value_t *v;
	cfgv_log(EV_ADDVAL, opt, NULL, 0);
	if (!g_addval_ok) return NULL;
	v = calloc(1, sizeof(cfg_value_t));
	__CPROVER_assume(v != NULL);
	__CPROVER_assert(g_fn_n < 3, "BOUND: at most three call arguments in the step harness");
	if (g_fn_n < 3) g_fn_val[g_fn_n] = v;
	g_fn_n++;
	opt->nvalues++;
	return v;
}
static void release_args(cfg_opt_t *funcopt)
{
	for (int i = 0; i < 3; i++)
		if (i < g_fn_n && g_fn_val[i]) { if (g_fn_val[i]->string) free(g_fn_val[i]->string); free(g_fn_val[i]); g_fn_val[i] = NULL; }
	g_fn_n = 0;
	if (funcopt) funcopt->nvalues = 0;
}
int g_call_ret;
int call_function(cfg_t *cfg, cfg_opt_t *opt, cfg_opt_t *funcopt)
{
	cfgv_log(EV_CALL, opt, funcopt, g_fn_n);
	__CPROVER_assert(cfg && opt && funcopt, "C14: a function call is made with context, option and argument vector");
	for (int i = 0; i < 3; i++)
		if (i < g_fn_n) __CPROVER_assert(g_fn_val[i] && g_fn_val[i]->string, "C14: every collected call argument carries its decoded text");
	/* contract::call_function: the callback sees the arguments in order; the vector is released afterwards */
	release_args(funcopt);
	return g_call_ret;
}
cfg_opt_t *g_argvec;     /* ghost: the parser's local argument vector (set by the harness from the entry hook) */
int cfg_free_value(cfg_opt_t *opt)
{
	if (opt && opt == g_argvec) { release_args(opt); return CFG_SUCCESS; }    /* contract: releases every collected argument */
	cfgv_log(EV_FREEVAL, opt, NULL, 0);
	if (!opt) { errno = EINVAL; return CFG_FAIL; }
	return CFG_SUCCESS;
}
int cfg_opt_setcomment(cfg_opt_t *opt, char *comment)
{
	if (!opt || !comment) { errno = EINVAL; return CFG_FAIL; }
	cfgv_log(EV_SETCOMMENT, opt, comment, 0);
	return CFG_SUCCESS;
}
void cfgv_release_args(cfg_opt_t *funcopt) { release_args(funcopt); }
