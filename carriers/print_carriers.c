/* contract carriers for the printer units: the built-in value formatter, the nested section print and the option
 * printer leave markers in the ghost output / ghost logs (spec/print_spec.h). */
#include <stdio.h>
#include "confuse.h"
#include "print_spec.h"
void cfgv_out_byte(unsigned char c);
int g_npv_calls; cfg_opt_t *g_npv_opt;
#ifdef CFGV_CARRY_NPRINT
int cfg_opt_nprint_var(cfg_opt_t *opt, unsigned int index, FILE *fp)
{
	(void)fp;
	g_npv_calls++; g_npv_opt = opt;
	cfgv_out_byte(M_VALUE); cfgv_out_byte((unsigned char)('0' + index));
	return CFG_SUCCESS;
}
#endif
int g_nest_calls; cfg_t *g_nest_cfg[3]; cfg_print_filter_func_t g_nest_pff[3]; int g_nest_indent[3];
#ifdef CFGV_CARRY_PRINTCFG
int cfg_print_pff_indent(cfg_t *cfg, FILE *fp, cfg_print_filter_func_t fb_pff, int indent)
{
	(void)fp;
	if (g_nest_calls < 3) { g_nest_cfg[g_nest_calls] = cfg; g_nest_pff[g_nest_calls] = fb_pff; g_nest_indent[g_nest_calls] = indent; }
	g_nest_calls++;
	cfgv_out_byte(M_SECTION);
	return CFG_SUCCESS;
}
#endif
int g_optp_calls; cfg_opt_t *g_optp_opt[4]; cfg_print_filter_func_t g_optp_pff[4]; int g_optp_indent[4]; int g_optp_ret;
#ifdef CFGV_CARRY_PRINTOPT
int cfg_opt_print_pff_indent(cfg_opt_t *opt, FILE *fp, cfg_print_filter_func_t pff, int indent)
{
	(void)fp;
	if (g_optp_calls < 4) { g_optp_opt[g_optp_calls] = opt; g_optp_pff[g_optp_calls] = pff; g_optp_indent[g_optp_calls] = indent; }
	g_optp_calls++;
	return g_optp_ret;
}
#endif
