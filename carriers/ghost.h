/* carriers/ghost.h - ghost state written by the contract carriers, read by the harnesses */
#ifndef CFGV_GHOST_H
#define CFGV_GHOST_H
#include "confuse.h"
/* cfg_free carrier */
extern int g_free_calls;          /* number of sections handed to cfg_free */
extern cfg_t *g_free_last;
extern cfg_t *g_free_log[4];
/* cfg_getopt carrier */
extern int g_getopt_calls;
extern cfg_opt_t *g_getopt_result;
extern const char *g_getopt_name;
extern cfg_t *g_getopt_cfg;
#endif
/* (appended) cfg_dupopt_array / cfg_init_defaults carriers */
#ifndef CFGV_GHOST2_H
#define CFGV_GHOST2_H
extern int g_dup_calls; extern cfg_opt_t *g_dup_arg, *g_dup_result;
extern int g_initdef_calls; extern cfg_t *g_initdef_arg;
#endif
