/* contract carrier for cfg_free(sec) when the function under proof hands a SECTION to it.
 *   requires  sec != NULL => sec->path == NULL   (the search path is shared with the root: it must have been detached, C07)
 *   ensures   everything the section owns is released exactly once; returns CFG_SUCCESS
 * In carrier worlds a section owns: its struct, name, title, filename, comment and a flat option array. */
#include <stdlib.h>
#include <errno.h>
#include "confuse.h"
int g_free_calls;
cfg_t *g_free_last;
cfg_t *g_free_log[4];
int cfg_free(cfg_t *cfg)
{
	if (!cfg) { errno = EINVAL; return CFG_FAIL; }
	__CPROVER_assert(cfg->path == NULL, "C07,C02,C17,C13: a section is handed to cfg_free only after the shared search path was detached from it");
	if (g_free_calls < 4) g_free_log[g_free_calls] = cfg;
	if (g_free_calls < 1000) g_free_calls++;
	g_free_last = cfg;
	if (cfg->comment) free(cfg->comment);
	if (cfg->opts) free(cfg->opts);
	if (cfg->name) free(cfg->name);
	if (cfg->title) free(cfg->title);
	if (cfg->filename) free(cfg->filename);
	free(cfg);
	return CFG_SUCCESS;
}
