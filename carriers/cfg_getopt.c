/* contract carrier for cfg_getopt(cfg,name): the lookup verdict is a ghost value fixed by the harness
 * (contract::cfg_getopt is enforced by the resolver units of C11). */
#include "confuse.h"
int g_getopt_calls;
cfg_opt_t *g_getopt_result;
const char *g_getopt_name;
cfg_t *g_getopt_cfg;
cfg_opt_t *cfg_getopt(cfg_t *cfg, const char *name)
{
	if (g_getopt_calls < 1000) g_getopt_calls++;
	g_getopt_name = name;
	g_getopt_cfg = cfg;
	return g_getopt_result;
}
