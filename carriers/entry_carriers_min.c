/* the parser-core carrier alone (units that run the real setters / cfg_free_value) */
#include "confuse.h"
int g_pi_calls; cfg_t *g_pi_cfg[3]; int g_pi_level[3], g_pi_force[3]; cfg_opt_t *g_pi_opt[3]; int g_pi_ret[3]; int g_pi_scan_depth_at_call[3];
extern int g_scan_depth;
int cfg_parse_internal(cfg_t *cfg, int level, int force_state, cfg_opt_t *force_opt)
{
	int me = g_pi_calls < 3 ? g_pi_calls : 2;
	g_pi_cfg[me] = cfg; g_pi_level[me] = level; g_pi_force[me] = force_state; g_pi_opt[me] = force_opt; g_pi_scan_depth_at_call[me] = g_scan_depth;
	g_pi_calls++;
	return g_pi_ret[me];
}
int g_set_calls, g_set_kind; cfg_opt_t *g_set_opt; long g_set_long; double g_set_double; cfg_bool_t g_set_bool; const char *g_set_str; unsigned g_set_index;
int g_so2_calls; cfg_t *g_so2_cfg; cfg_opt_t *g_so2_opt; const char *g_so2_value; cfg_value_t *g_so2_result;
