/* carriers/dfcc_print_carriers.c - the option printer as a monitor carrier for unit dfcc_loop_cfg_print_pff_indent
 * (the real body is removed with goto-instrument --remove-function-body; it is under contract in the print_opt units). */
#include <config.h>
#include <stdio.h>
#include "confuse.h"
extern int cfgv_pos, cfgv_sum, cfgv_depth; extern _Bool cfgv_fasked; extern cfg_t *cfgv_pc; extern FILE *cfgv_fp; extern cfg_print_filter_func_t cfgv_eff;
_Bool nondet_bool(void);
int cfg_opt_print_pff_indent(cfg_opt_t *opt, FILE *fp, cfg_print_filter_func_t pff, int indent)
{
	int r = nondet_bool() ? CFG_SUCCESS : CFG_FAIL;
	__CPROVER_assert(opt == &cfgv_pc->opts[cfgv_pos], "[C19] options reach the option printer once each, in declaration order");
	__CPROVER_assert(cfgv_eff == NULL || cfgv_fasked, "[C19] an option reaches the option printer only after the effective filter accepted it");
	__CPROVER_assert(pff == cfgv_eff && fp == cfgv_fp && indent == cfgv_depth, "[C19,C16] the option printer gets the effective filter, the same stream and the same depth");
	cfgv_pos++; cfgv_fasked = 0; cfgv_sum += r;
	return r;
}
