/* contract carriers for the entry-point units (harness/entry.c): the parser core, the setters and cfg_setopt are
 * reduced to ghost logs + ghost verdicts; their contracts are enforced by the grammar / store / setopt units. */
#include <stdlib.h>
#include <stdio.h>
#include "confuse.h"
/* ---- cfg_parse_internal (static in confuse.c) */
int g_pi_calls; cfg_t *g_pi_cfg[3]; int g_pi_level[3], g_pi_force[3]; cfg_opt_t *g_pi_opt[3]; int g_pi_ret[3]; int g_pi_scan_depth_at_call[3];
extern int g_scan_depth;
int cfg_parse_internal(cfg_t *cfg, int level, int force_state, cfg_opt_t *force_opt)
{
	int me = g_pi_calls < 3 ? g_pi_calls : 2;
	g_pi_cfg[me] = cfg; g_pi_level[me] = level; g_pi_force[me] = force_state; g_pi_opt[me] = force_opt; g_pi_scan_depth_at_call[me] = g_scan_depth;
	g_pi_calls++;
	return g_pi_ret[me];
}
/* ---- typed setters and cfg_setopt, as used by cfg_init_defaults / cfg_addtsec */
int g_set_calls; int g_set_kind; cfg_opt_t *g_set_opt; long g_set_long; double g_set_double; cfg_bool_t g_set_bool; const char *g_set_str; unsigned g_set_index;
int cfg_opt_setnint(cfg_opt_t *opt, long int value, unsigned int index) { g_set_calls++; g_set_kind = CFGT_INT; g_set_opt = opt; g_set_long = value; g_set_index = index; return CFG_SUCCESS; }
int cfg_opt_setnfloat(cfg_opt_t *opt, double value, unsigned int index) { g_set_calls++; g_set_kind = CFGT_FLOAT; g_set_opt = opt; g_set_double = value; g_set_index = index; return CFG_SUCCESS; }
int cfg_opt_setnbool(cfg_opt_t *opt, cfg_bool_t value, unsigned int index) { g_set_calls++; g_set_kind = CFGT_BOOL; g_set_opt = opt; g_set_bool = value; g_set_index = index; return CFG_SUCCESS; }
int cfg_opt_setnstr(cfg_opt_t *opt, const char *value, unsigned int index) { g_set_calls++; g_set_kind = CFGT_STR; g_set_opt = opt; g_set_str = value; g_set_index = index; return CFG_SUCCESS; }
int g_so2_calls; cfg_t *g_so2_cfg; cfg_opt_t *g_so2_opt; const char *g_so2_value; cfg_value_t *g_so2_result;
cfg_value_t *cfg_setopt(cfg_t *cfg, cfg_opt_t *opt, const char *value)
{
	g_so2_calls++; g_so2_cfg = cfg; g_so2_opt = opt; g_so2_value = value;
	return g_so2_result;
}
