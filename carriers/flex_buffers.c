/* assumed contracts for flex's buffer stack (DESIGN 6): create / push / pop are a stack; the ghost depth and the log
 * of pushed sources are what the scanner-helper units reason about. */
#include <stdio.h>
#include <stdlib.h>
struct yy_buffer_state;
typedef struct yy_buffer_state *YY_BUFFER_STATE;
int g_buf_depth, g_buf_creates, g_buf_pushes, g_buf_pops;
FILE *g_buf_created_for;
static char g_buf_token[4];
YY_BUFFER_STATE cfg_yy_create_buffer(FILE *file, int size)
{
	(void)size;
	g_buf_creates++; g_buf_created_for = file;
	return (YY_BUFFER_STATE)(void *)&g_buf_token[g_buf_creates & 3];
}
void cfg_yypush_buffer_state(YY_BUFFER_STATE b) { (void)b; g_buf_pushes++; g_buf_depth++; }
void cfg_yypop_buffer_state(void) { g_buf_pops++; g_buf_depth--; }
