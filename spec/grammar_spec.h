/* spec/grammar_spec.h - reference token automaton of the configuration language (DESIGN 4b), one step.
 *
 * Written from the property statements (C01 C06 C12 C14 C15) and the documentation's grammar; rows that the statements
 * leave open are marked "pinned" (current behaviour recorded, not judged).  Pure C, no heap.
 *
 * State numbering follows the code's (the mapping is part of the invariant: a renumbering breaks the unit, exit 2):
 *   0 NAME   1 ASSIGN   2 VALUE/ELEM   3 LIST-OPEN   4 SEP   5 OPEN   6 TITLE?   7 LPAREN   8 ARGS   9 ARGSEP
 *   10..15 skipping an undeclared item (pinned transition table; the reference skipper is checked by scripted runs)
 */
#ifndef CFGV_GRAMMAR_SPEC_H
#define CFGV_GRAMMAR_SPEC_H

enum { SP_CONT, SP_RET_EOF, SP_RET_ERROR, SP_RET_CONTINUE };
enum { SX_NONE, SX_LOOKUP, SX_SETOPT_TOKEN, SX_SETOPT_TITLE, SX_ADDOPT, SX_ADDVAL, SX_CALL, SX_FREEVAL_CUR, SX_FREEVAL_PREV,
       SX_SETCOMMENT, SX_VALID, SX_RECURSE_SECTION, SX_RECURSE_SKIP };
#define SP_T_ERR 0
#define SP_T_EOF (-1)
#define SP_T_STR 3      /* CFGT_STR */
#define SP_T_COMMENT 8  /* CFGT_COMMENT */

typedef struct {
	/* pre-state */
	int state, tok, level, skipmode /* force_state == 10 */, section_body /* nested activation for the body of a section */;
	int ctx_comments, ctx_ignore_unknown, ctx_keystrval;
	int cur_null;                       /* no current option */
	int cur_is_sec, cur_is_func, cur_list, cur_title, cur_deprecated, cur_drop, cur_validcb, cur_reset_after /* filled */;
	int pending_comment, num_values, ignore;
	/* verdicts of the callees (ghost) */
	int found, found_is_sec, found_is_func, found_title;
	int setopt_ok, valid_ret, addopt_ok, addval_ok, call_ret, strdup_ok, rec_result;
} sp_in_t;

typedef struct {
	int outcome, next_state;
	int nact; int act[6];
	int diag_required;      /* the rejection must have been reported by the parser itself in this step */
	int diag_by_callee;     /* ... or was reported by the callee whose contract says so (lookup, set-from-text, nested parse) */
	int silent_cause;       /* rejection by a user callback veto or an allocation failure: no diagnostic demanded */
	int no_diag;            /* an accepted step that must not produce any diagnostic */
	int deprecated_diag;    /* a deprecated option was finished: one diagnostic (not a rejection) */
	int deprecated_optional;/* pinned: whether the deprecated handling runs on this token is not judged */
	int next_cur;           /* 0 keep, 1 = looked-up option, 2 = created key, 3 = none (undeclared name being skipped) */
	int next_num_values, next_ignore;
	int comment_after;      /* 0 none pending, 1 unchanged pending, 2 = fresh copy of the token text */
	int set_reset, clear_reset, set_modified;
	int pinned;             /* the row is pinned, not taken from a statement */
} sp_out_t;

static void sp_act(sp_out_t *o, int a) { if (o->nact < 6) o->act[o->nact] = a; o->nact++; }
static void sp_reject(sp_out_t *o, int parser_diag) { o->outcome = SP_RET_ERROR; o->diag_required = parser_diag; }

static void spec_step(const sp_in_t *i, sp_out_t *o)
{
	int s = i->state, t = i->tok;
	o->outcome = SP_CONT; o->next_state = s; o->nact = 0;
	o->diag_required = o->diag_by_callee = o->silent_cause = o->no_diag = o->deprecated_diag = o->deprecated_optional = 0;
	o->next_cur = 0; o->next_num_values = i->num_values; o->next_ignore = i->ignore;
	o->comment_after = i->pending_comment ? 1 : 0;
	o->set_reset = o->clear_reset = o->set_modified = 0; o->pinned = 0;

	if (t == SP_T_ERR) { sp_reject(o, 0); o->diag_by_callee = 1; o->comment_after = 0; return; }   /* the scanner reported it */
	if (t == SP_T_EOF) {
		o->comment_after = 0;
		if (s != 0 || i->section_body) { sp_reject(o, 1); return; }     /* premature end of input; a section body must end with its brace */
		if (!i->cur_null && i->cur_deprecated) { o->deprecated_diag = 1; if (i->cur_drop) sp_act(o, SX_FREEVAL_CUR); }
		else o->no_diag = 1;
		o->outcome = SP_RET_EOF;
		return;
	}
	/* comments are transparent in every state (C15) */
	if (t == SP_T_COMMENT && s != 0) { o->no_diag = 1; if (s == 10) { o->pinned = 1; o->comment_after = 0; } return; }

	switch (s) {
	case 0:
		if (!i->cur_null && i->cur_deprecated) {
			o->deprecated_diag = 1;
			if (t == SP_T_COMMENT) o->deprecated_optional = 1;
			if (i->cur_drop) sp_act(o, SX_FREEVAL_CUR);
		}
		if (t == '}') {
			o->comment_after = 0;
			if (i->level == 0) { sp_reject(o, 1); return; }
			o->outcome = SP_RET_EOF; if (!o->deprecated_diag) o->no_diag = 1; return;
		}
		if (t == SP_T_COMMENT) {
			if (i->ctx_comments) o->comment_after = i->strdup_ok ? 2 : 0;  /* pinned: a failed copy just drops the annotation */
			if (!o->deprecated_diag) o->no_diag = 1;
			return;
		}
		if (t != SP_T_STR) { sp_reject(o, 1); o->comment_after = 0; return; }
		sp_act(o, SX_LOOKUP);
		if (!i->found) {
			if (i->ctx_ignore_unknown) { o->next_state = 10; o->next_cur = 3; if (!o->deprecated_diag) o->no_diag = 1; return; }   /* C12 */
			if (i->ctx_keystrval) {
				sp_act(o, SX_ADDOPT);
				if (!i->addopt_ok) { sp_reject(o, 0); o->silent_cause = 1; o->comment_after = 0; return; }
				o->next_cur = 2; o->next_state = 1; return;
			}
			sp_reject(o, 0); o->diag_by_callee = 1; o->comment_after = 0; return;   /* unknown name: rejected with a diagnostic */
		}
		o->next_cur = 1;
		o->next_state = i->found_is_sec ? (i->found_title ? 6 : 5) : (i->found_is_func ? 7 : 1);
		if (!o->deprecated_diag) o->no_diag = 1;
		return;
	case 1:
		if (t == '+') {
			if (!i->cur_list) { sp_reject(o, 1); o->comment_after = 0; return; }
			o->clear_reset = 1;                                             /* '+=' appends, also to defaults */
		} else if (t == '=') o->set_reset = 1;                                  /* '=' replaces */
		else { sp_reject(o, 1); o->comment_after = 0; return; }
		o->set_modified = 1; o->no_diag = 1;
		if (i->cur_list) { o->next_state = 3; o->next_num_values = 0; } else o->next_state = 2;
		return;
	case 2:
		if (t == '}' && i->cur_list) {
			o->next_state = 0; o->no_diag = 1;
			if (i->num_values == 0 && i->cur_reset_after) sp_act(o, SX_FREEVAL_CUR);   /* '= {}' : explicit empty list */
			return;
		}
		if (t != SP_T_STR) { sp_reject(o, 1); o->comment_after = 0; return; }
		sp_act(o, SX_SETOPT_TOKEN);
		if (!i->setopt_ok) { sp_reject(o, 0); o->diag_by_callee = 1; o->comment_after = 0; return; }
		if (i->cur_validcb) { sp_act(o, SX_VALID); if (i->valid_ret) { sp_reject(o, 0); o->silent_cause = 1; o->comment_after = 0; return; } }
		if (i->pending_comment) sp_act(o, SX_SETCOMMENT);
		o->comment_after = 0; o->no_diag = 1;
		if (i->cur_list) { o->next_num_values = i->num_values + 1; o->next_state = 4; } else o->next_state = 0;
		return;
	case 3:
		if (t == '{') { o->next_state = 2; o->no_diag = 1; return; }
		if (t != SP_T_STR) { sp_reject(o, 1); o->comment_after = 0; return; }
		o->pinned = 1;                                                          /* 'l = x' one-element form */
		sp_act(o, SX_SETOPT_TOKEN);
		if (!i->setopt_ok) { sp_reject(o, 0); o->diag_by_callee = 1; o->comment_after = 0; return; }
		if (i->cur_validcb) { sp_act(o, SX_VALID); if (i->valid_ret) { sp_reject(o, 0); o->silent_cause = 1; o->comment_after = 0; return; } }
		o->next_num_values = i->num_values + 1; o->next_state = 0; o->no_diag = 1;
		return;
	case 4:
		if (t == ',') { o->next_state = 2; o->no_diag = 1; return; }
		if (t == '}') {
			o->next_state = 0;
			if (i->cur_validcb) { sp_act(o, SX_VALID); if (i->valid_ret) { sp_reject(o, 0); o->silent_cause = 1; o->comment_after = 0; return; } }
			o->no_diag = 1; return;
		}
		sp_reject(o, 1); o->comment_after = 0; return;
	case 5:
		if (t != '{') { sp_reject(o, 1); o->comment_after = 0; return; }
		sp_act(o, SX_SETOPT_TITLE);
		if (!i->setopt_ok) { sp_reject(o, 0); o->diag_by_callee = 1; o->comment_after = 0; return; }
		sp_act(o, SX_RECURSE_SECTION);
		if (i->rec_result != SP_RET_EOF) { sp_reject(o, 0); o->diag_by_callee = 1; o->comment_after = 0; return; }
		if (i->cur_validcb) { sp_act(o, SX_VALID); if (i->valid_ret) { sp_reject(o, 0); o->silent_cause = 1; o->comment_after = 0; return; } }
		o->next_state = 0; return;
	case 6:
		if (t != SP_T_STR) { sp_reject(o, 1); o->comment_after = 0; return; }
		if (!i->strdup_ok) { sp_reject(o, 0); o->silent_cause = 1; o->comment_after = 0; return; }
		o->next_state = 5; o->no_diag = 1; return;
	case 7:
		if (t != '(') { sp_reject(o, 1); o->comment_after = 0; return; }
		o->next_state = 8; o->no_diag = 1; return;
	case 8:
	case 9:
		if (t == ')') {
			sp_act(o, SX_CALL);
			if (i->call_ret) { sp_reject(o, 0); o->silent_cause = 1; o->comment_after = 0; return; }   /* the callback's verdict binds */
			o->next_state = 0; return;
		}
		if (s == 8 && t == SP_T_STR) {
			sp_act(o, SX_ADDVAL);
			if (!i->addval_ok || !i->strdup_ok) { sp_reject(o, 0); o->silent_cause = 1; o->comment_after = 0; return; }
			o->next_state = 9; o->no_diag = 1; return;
		}
		if (s == 9 && t == ',') { o->next_state = 8; o->no_diag = 1; return; }
		sp_reject(o, 1); o->comment_after = 0; return;
	/* ---- skipping an undeclared item: pinned transition table; no store, no lookup, no callback, and no diagnostic
	 *      unless the step rejects (C12) */
	case 10:
		o->pinned = 1; o->comment_after = 0; o->no_diag = 1;
		if (t == '+') { o->next_ignore = '='; o->next_state = 13; }
		else if (t == '=') { o->next_ignore = 0; o->next_state = 14; }
		else if (t == '(') { o->next_ignore = ')'; o->next_state = 13; }
		else if (t == '{') o->next_state = 12;
		else if (t == SP_T_STR) o->next_state = 11;
		else if (t == '}' && i->skipmode) o->outcome = SP_RET_CONTINUE;
		return;
	case 11:
		o->pinned = 1;
		if (t != '{') { sp_reject(o, 1); o->comment_after = 0; return; }
		o->next_state = 12; o->no_diag = 1; return;
	case 12:
		o->pinned = 1;
		sp_act(o, SX_RECURSE_SKIP);
		if (i->rec_result != SP_RET_CONTINUE) { sp_reject(o, 0); o->diag_by_callee = 1; o->comment_after = 0; return; }
		o->next_ignore = '}'; o->next_state = 13; return;
	case 13:
		o->pinned = 1; o->no_diag = 1;
		if (t != i->ignore) return;
		if (i->ignore == '=') { o->next_ignore = 0; o->next_state = 14; return; }
		if (i->skipmode) { o->outcome = SP_RET_CONTINUE; o->comment_after = 0; return; }
		o->next_ignore = 0; o->next_state = 0; return;
	case 14:
		o->pinned = 1;
		if (t == '{') { o->next_ignore = '}'; o->next_state = 13; o->no_diag = 1; return; }
		if (t != SP_T_STR) { sp_reject(o, 1); o->comment_after = 0; return; }
		o->next_ignore = 0; o->next_state = i->skipmode ? 15 : 0; o->no_diag = 1; return;
	case 15:
		o->pinned = 1; o->next_state = 10; o->no_diag = 1; return;
	default:
		sp_reject(o, 1); o->comment_after = 0; return;
	}
}
#endif
