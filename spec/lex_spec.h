/* spec/lex_spec.h - reference lexical forms of the configuration language (DESIGN 4b), as four small deterministic
 * automata (one per scanner context) written from the property statements C03 / C06 / C15 and the documentation.
 * Rows the statements leave open are marked "pinned".  Pure C, usable natively (witness generator) and in CBMC.
 *
 * A token is the LONGEST prefix of the remaining input that ends in an accepting state (ties cannot occur here: every
 * state has at most one form).  The form decides what the token contributes (spec_decode_* below).
 */
#ifndef CFGV_LEX_SPEC_H
#define CFGV_LEX_SPEC_H

enum { LC_TOP = 0, LC_COMMENT = 1, LC_DQ = 2, LC_SQ = 3 };      /* contexts: top level, inside a C comment, "..." , '...' */

/* forms (what a complete token is) */
enum {
	F_NONE = 0,
	/* top level */
	F_BLANKS, F_NEWLINE, F_HASH_COMMENT, F_SLASH_COMMENT, F_LBRACE, F_RBRACE, F_LPAREN, F_RPAREN, F_EQUALS, F_PLUSEQ, F_COMMA,
	F_CCOMMENT_OPEN, F_DQ_OPEN, F_SQ_OPEN, F_ENV, F_WORD, F_DROP /* pinned: any other single byte is dropped */,
	/* inside a C comment */
	F_C_TEXT, F_C_STARS, F_C_NEWLINE, F_C_CLOSE,
	/* inside "..." */
	F_D_CLOSE, F_D_ENV, F_D_NEWLINE, F_D_CONTINUATION, F_D_OCTAL, F_D_BADNUM, F_D_HEX,
	F_D_ESC_n, F_D_ESC_r, F_D_ESC_b, F_D_ESC_f, F_D_ESC_a, F_D_ESC_e, F_D_ESC_t, F_D_ESC_v, F_D_ESC_OTHER, F_D_CHAR,
	/* inside '...' */
	F_S_CLOSE, F_S_NEWLINE, F_S_CONTINUATION, F_S_ESC_QUOTE_OR_BACKSLASH, F_S_ESC_KEPT, F_S_RUN,
	/* a backslash with nothing after it (end of input inside an unterminated string): pinned - kept as a byte; the
	 * statement only demands that it is not echoed to standard output (C02) */
	F_D_LONE_BACKSLASH, F_S_LONE_BACKSLASH,
	F__COUNT
};

/* automaton states */
enum {
	LS_DEAD = 0,
	/* top */
	LT_START, LT_BLANKS, LT_NEWLINE, LT_HASH, LT_SLASH, LT_SLASHSLASH, LT_CCOPEN, LT_LBRACE, LT_RBRACE, LT_LPAREN, LT_RPAREN, LT_EQUALS,
	LT_PLUS, LT_PLUSEQ, LT_COMMA, LT_DQ, LT_SQ, LT_DOLLAR, LT_ENVBODY, LT_ENVDONE, LT_WORD, LT_DROP,
	/* comment */
	LM_START, LM_BLANKS, LM_TEXT, LM_BLANKSTARS, LM_STARS, LM_STARTEXT, LM_NEWLINE, LM_CLOSE,
	/* dq */
	LD_START, LD_CLOSE, LD_NEWLINE, LD_CHAR, LD_DOLLAR, LD_ENVBODY, LD_ENVDONE, LD_BS, LD_CONT, LD_O1, LD_O2, LD_O3, LD_BAD, LD_X0, LD_X1, LD_X2,
	LD_En, LD_Er, LD_Eb, LD_Ef, LD_Ea, LD_Ee, LD_Et, LD_Ev, LD_EOTHER,
	/* sq */
	LQ_START, LQ_CLOSE, LQ_NEWLINE, LQ_BS, LQ_CONT, LQ_ESCQ, LQ_ESCKEPT, LQ_RUN,
	LS__COUNT
};

static int spec_lex_start(int ctx)
{
	return ctx == LC_TOP ? LT_START : ctx == LC_COMMENT ? LM_START : ctx == LC_DQ ? LD_START : LQ_START;
}

/* a byte that may be part of an unquoted word: anything but blank, tab, newline, CR and # " ' = { } ( ) + , *   */
static int spec_wordbyte(unsigned char c)
{
	switch (c) {
	case ' ': case '\t': case '\n': case '\r': case '#': case '"': case '\'': case '=': case '{': case '}': case '(': case ')': case '+': case ',': case '*': case 0:
		return 0;
	default:
		return 1;
	}
}
static int spec_octal(unsigned char c) { return c >= '0' && c <= '7'; }
static int spec_decimal(unsigned char c) { return c >= '0' && c <= '9'; }
static int spec_hex(unsigned char c) { return (c >= '0' && c <= '9') || (c >= 'a' && c <= 'f') || (c >= 'A' && c <= 'F'); }

static int spec_lex_step(int s, unsigned char c)
{
	if (c == 0) return LS_DEAD;
	switch (s) {
	/* ------------------------------------------------------------ top level */
	case LT_START:
		if (c == ' ' || c == '\t') return LT_BLANKS;
		if (c == '\n') return LT_NEWLINE;
		if (c == '#') return LT_HASH;
		if (c == '/') return LT_SLASH;
		if (c == '{') return LT_LBRACE;
		if (c == '}') return LT_RBRACE;
		if (c == '(') return LT_LPAREN;
		if (c == ')') return LT_RPAREN;
		if (c == '=') return LT_EQUALS;
		if (c == '+') return LT_PLUS;
		if (c == ',') return LT_COMMA;
		if (c == '"') return LT_DQ;
		if (c == '\'') return LT_SQ;
		if (c == '$') return LT_DOLLAR;
		if (spec_wordbyte(c)) return LT_WORD;
		return LT_DROP;                                         /* '*', CR: pinned */
	case LT_BLANKS: return (c == ' ' || c == '\t') ? LT_BLANKS : LS_DEAD;
	case LT_HASH: return c != '\n' ? LT_HASH : LS_DEAD;              /* to the end of the line */
	case LT_SLASH:                                                  /* a word may start with (and contain) '/' ...   */
		if (c == '/') return LT_SLASHSLASH;                     /* ... but '//' opens a comment                  */
		if (c == '*') return LT_CCOPEN;                         /* ... and slash-star opens a C comment          */
		return spec_wordbyte(c) ? LT_WORD : LS_DEAD;
	case LT_SLASHSLASH: return c != '\n' ? LT_SLASHSLASH : LS_DEAD;
	case LT_PLUS: return c == '=' ? LT_PLUSEQ : LS_DEAD;
	case LT_DOLLAR:                                                 /* '$' is a word byte; '${' starts a substitution */
		if (c == '{') return LT_ENVBODY;
		return spec_wordbyte(c) ? LT_WORD : LS_DEAD;
	case LT_ENVBODY: return c == '}' ? LT_ENVDONE : LT_ENVBODY;      /* anything up to the closing brace */
	case LT_WORD: return spec_wordbyte(c) ? LT_WORD : LS_DEAD;       /* pinned: inside a word '/' and '$' are ordinary bytes */
	case LT_NEWLINE: case LT_CCOPEN: case LT_LBRACE: case LT_RBRACE: case LT_LPAREN: case LT_RPAREN: case LT_EQUALS: case LT_PLUSEQ:
	case LT_COMMA: case LT_DQ: case LT_SQ: case LT_ENVDONE: case LT_DROP:
		return LS_DEAD;
	/* ------------------------------------------------------------ C comment: text, runs of stars, the closing run */
	case LM_START:
		if (c == '\n') return LM_NEWLINE;
		if (c == '*') return LM_STARS;
		if (c == ' ' || c == '\t') return LM_BLANKS;
		return LM_TEXT;
	case LM_BLANKS:                                                 /* blanks may be text or the lead-in of the closing run */
		if (c == '\n') return LS_DEAD;
		if (c == '*') return LM_BLANKSTARS;
		if (c == ' ' || c == '\t') return LM_BLANKS;
		return LM_TEXT;
	case LM_TEXT: return (c == '\n' || c == '*') ? LS_DEAD : LM_TEXT;
	case LM_BLANKSTARS: return c == '*' ? LM_BLANKSTARS : c == '/' ? LM_CLOSE : LS_DEAD;
	case LM_STARS:
		if (c == '*') return LM_STARS;
		if (c == '/') return LM_CLOSE;
		return c == '\n' ? LS_DEAD : LM_STARTEXT;
	case LM_STARTEXT: return (c == '\n' || c == '*' || c == '/') ? LS_DEAD : LM_STARTEXT;
	case LM_NEWLINE: case LM_CLOSE: return LS_DEAD;
	/* ------------------------------------------------------------ "..." */
	case LD_START:
		if (c == '"') return LD_CLOSE;
		if (c == '\n') return LD_NEWLINE;
		if (c == '\\') return LD_BS;
		if (c == '$') return LD_DOLLAR;
		return LD_CHAR;
	case LD_DOLLAR: return c == '{' ? LD_ENVBODY : LS_DEAD;
	case LD_ENVBODY: return c == '}' ? LD_ENVDONE : LD_ENVBODY;
	case LD_BS:
		if (c == '\n') return LD_CONT;
		if (spec_octal(c)) return LD_O1;
		if (c == '8' || c == '9') return LD_BAD;
		if (c == 'x') return LD_X0;
		if (c == 'n') return LD_En; if (c == 'r') return LD_Er; if (c == 'b') return LD_Eb; if (c == 'f') return LD_Ef;
		if (c == 'a') return LD_Ea; if (c == 'e') return LD_Ee; if (c == 't') return LD_Et; if (c == 'v') return LD_Ev;
		return LD_EOTHER;
	case LD_O1: return spec_octal(c) ? LD_O2 : spec_decimal(c) ? LD_BAD : LS_DEAD;
	case LD_O2: return spec_octal(c) ? LD_O3 : spec_decimal(c) ? LD_BAD : LS_DEAD;
	case LD_O3: return spec_decimal(c) ? LD_BAD : LS_DEAD;           /* a fourth digit makes it a bad escape */
	case LD_BAD: return spec_decimal(c) ? LD_BAD : LS_DEAD;
	case LD_X0: return spec_hex(c) ? LD_X1 : LS_DEAD;
	case LD_X1: return spec_hex(c) ? LD_X2 : LS_DEAD;
	case LD_CLOSE: case LD_NEWLINE: case LD_CHAR: case LD_ENVDONE: case LD_CONT: case LD_X2:
	case LD_En: case LD_Er: case LD_Eb: case LD_Ef: case LD_Ea: case LD_Ee: case LD_Et: case LD_Ev: case LD_EOTHER:
		return LS_DEAD;
	/* ------------------------------------------------------------ '...' */
	case LQ_START:
		if (c == '\'') return LQ_CLOSE;
		if (c == '\n') return LQ_NEWLINE;
		if (c == '\\') return LQ_BS;
		return LQ_RUN;
	case LQ_BS:
		if (c == '\n') return LQ_CONT;
		if (c == '\\' || c == '\'') return LQ_ESCQ;
		return LQ_ESCKEPT;
	case LQ_RUN: return (c == '\\' || c == '\'' || c == '\n') ? LS_DEAD : LQ_RUN;
	case LQ_CLOSE: case LQ_NEWLINE: case LQ_CONT: case LQ_ESCQ: case LQ_ESCKEPT:
		return LS_DEAD;
	default:
		return LS_DEAD;
	}
}

/* the form a token ending in state s has (F_NONE: not a complete token) */
static int spec_lex_accept(int s)
{
	switch (s) {
	case LT_BLANKS: return F_BLANKS; case LT_NEWLINE: return F_NEWLINE; case LT_HASH: return F_HASH_COMMENT;
	case LT_SLASH: return F_WORD; case LT_SLASHSLASH: return F_SLASH_COMMENT; case LT_CCOPEN: return F_CCOMMENT_OPEN;
	case LT_LBRACE: return F_LBRACE; case LT_RBRACE: return F_RBRACE; case LT_LPAREN: return F_LPAREN; case LT_RPAREN: return F_RPAREN;
	case LT_EQUALS: return F_EQUALS; case LT_PLUS: return F_DROP; case LT_PLUSEQ: return F_PLUSEQ; case LT_COMMA: return F_COMMA;
	case LT_DQ: return F_DQ_OPEN; case LT_SQ: return F_SQ_OPEN; case LT_DOLLAR: return F_WORD; case LT_ENVDONE: return F_ENV;
	case LT_WORD: return F_WORD; case LT_DROP: return F_DROP;
	case LM_START: return F_C_TEXT;      /* (empty text: never the longest match when a byte follows) */
	case LM_BLANKS: return F_C_TEXT; case LM_TEXT: return F_C_TEXT; case LM_STARS: return F_C_STARS; case LM_STARTEXT: return F_C_STARS;
	case LM_NEWLINE: return F_C_NEWLINE; case LM_CLOSE: return F_C_CLOSE;
	case LD_CLOSE: return F_D_CLOSE; case LD_NEWLINE: return F_D_NEWLINE; case LD_CHAR: return F_D_CHAR; case LD_DOLLAR: return F_D_CHAR;
	case LD_ENVDONE: return F_D_ENV; case LD_CONT: return F_D_CONTINUATION; case LD_O1: case LD_O2: case LD_O3: return F_D_OCTAL;
	case LD_BAD: return F_D_BADNUM; case LD_X0: return F_D_ESC_OTHER; case LD_X1: case LD_X2: return F_D_HEX;
	case LD_En: return F_D_ESC_n; case LD_Er: return F_D_ESC_r; case LD_Eb: return F_D_ESC_b; case LD_Ef: return F_D_ESC_f;
	case LD_Ea: return F_D_ESC_a; case LD_Ee: return F_D_ESC_e; case LD_Et: return F_D_ESC_t; case LD_Ev: return F_D_ESC_v;
	case LD_EOTHER: return F_D_ESC_OTHER;
	case LQ_CLOSE: return F_S_CLOSE; case LQ_NEWLINE: return F_S_NEWLINE; case LQ_CONT: return F_S_CONTINUATION;
	case LQ_ESCQ: return F_S_ESC_QUOTE_OR_BACKSLASH; case LQ_ESCKEPT: return F_S_ESC_KEPT; case LQ_RUN: return F_S_RUN;
	case LD_BS: return F_D_LONE_BACKSLASH; case LQ_BS: return F_S_LONE_BACKSLASH;
	default: return F_NONE;   /* LT_ENVBODY, LM_BLANKSTARS, LD_ENVBODY, starts, dead */
	}
}

/* does the byte string t[0..n) belong to form f (starting from the context's start state)?  used to build action inputs */
static int spec_lex_member(int ctx, const unsigned char *t, unsigned n, int f)
{
	int s = spec_lex_start(ctx);
	for (unsigned i = 0; i < n; i++) {
		s = spec_lex_step(s, t[i]);
		if (s == LS_DEAD) return 0;
	}
	return n > 0 ? spec_lex_accept(s) == f : (f == F_C_TEXT && ctx == LC_COMMENT);
}

/* number of newline bytes in a token: what the line counter must advance by (C06) */
static int spec_newlines(const unsigned char *t, unsigned n)
{
	int k = 0;
	for (unsigned i = 0; i < n; i++) if (t[i] == '\n') k++;
	return k;
}

/* value of the named escapes of "..." (C03) */
static int spec_named_escape(int f)
{
	switch (f) {
	case F_D_ESC_n: return 0x0A; case F_D_ESC_t: return 0x09; case F_D_ESC_r: return 0x0D; case F_D_ESC_b: return 0x08;
	case F_D_ESC_f: return 0x0C; case F_D_ESC_a: return 0x07; case F_D_ESC_e: return 0x1B; case F_D_ESC_v: return 0x0B;
	default: return -1;
	}
}
static int spec_hexval(unsigned char c) { return c <= '9' ? c - '0' : (c | 0x20) - 'a' + 10; }
/* reference scanner for the text after an opening double quote: longest match per token, decode by form.
 * returns 1 iff the text is exactly one string literal body closed by its quote at the very end; env: ghost "substituted" flag */
static int spec_decode_dq(const unsigned char *t, unsigned n, unsigned char *out, unsigned *outn, int *substituted)
{
	unsigned pos = 0; *outn = 0; *substituted = 0;
	while (pos < n) {
		int s = LD_START, form = F_NONE; unsigned len = 0, i = pos;
		while (i < n) {
			s = spec_lex_step(s, t[i]);
			if (s == LS_DEAD) break;
			i++;
			if (spec_lex_accept(s) != F_NONE) { form = spec_lex_accept(s); len = i - pos; }
		}
		if (form == F_NONE) return 0;
		switch (form) {
		case F_D_CLOSE: return pos + len == n;
		case F_D_CHAR: out[(*outn)++] = t[pos]; break;
		case F_D_ESC_OTHER: out[(*outn)++] = t[pos + 1]; break;
		case F_D_NEWLINE: out[(*outn)++] = '\n'; break;
		case F_D_CONTINUATION: break;
		case F_D_LONE_BACKSLASH: out[(*outn)++] = '\\'; break;
		case F_D_OCTAL: { unsigned v = 0; for (unsigned k = 1; k < len; k++) v = v * 8 + (unsigned)(t[pos + k] - '0'); if (v > 0xFF) return 0; out[(*outn)++] = (unsigned char)v; break; }
		case F_D_HEX: { unsigned v = 0; for (unsigned k = 2; k < len; k++) v = v * 16 + (unsigned)spec_hexval(t[pos + k]); out[(*outn)++] = (unsigned char)v; break; }
		case F_D_BADNUM: return 0;
		case F_D_ENV: *substituted = 1; break;       /* replaced by an environment value: not the literal bytes */
		default:
			if (spec_named_escape(form) >= 0) { out[(*outn)++] = (unsigned char)spec_named_escape(form); break; }
			return 0;
		}
		pos += len;
	}
	return 0;      /* no closing quote */
}

/* the same for the text after an opening single quote: only \' and \\ are unescaped, backslash-newline joins lines */
static int spec_decode_sq(const unsigned char *t, unsigned n, unsigned char *out, unsigned *outn)
{
	unsigned pos = 0; *outn = 0;
	while (pos < n) {
		int s = LQ_START, form = F_NONE; unsigned len = 0, i = pos;
		while (i < n) {
			s = spec_lex_step(s, t[i]);
			if (s == LS_DEAD) break;
			i++;
			if (spec_lex_accept(s) != F_NONE) { form = spec_lex_accept(s); len = i - pos; }
		}
		switch (form) {
		case F_S_CLOSE: return pos + len == n;
		case F_S_NEWLINE: out[(*outn)++] = '\n'; break;
		case F_S_CONTINUATION: break;
		case F_S_ESC_QUOTE_OR_BACKSLASH: out[(*outn)++] = t[pos + 1]; break;
		case F_S_ESC_KEPT: out[(*outn)++] = t[pos]; out[(*outn)++] = t[pos + 1]; break;
		case F_S_LONE_BACKSLASH: out[(*outn)++] = '\\'; break;
		case F_S_RUN: for (unsigned k = 0; k < len; k++) out[(*outn)++] = t[pos + k]; break;
		default: return 0;
		}
		pos += len;
	}
	return 0;
}
#endif
