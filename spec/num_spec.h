/* spec/num_spec.h - reference reading of property C04 (pure C, no heap, usable in CBMC and natively).
 *
 * spec_int(t,&v):   1 = the statement requires acceptance with value v
 *                   0 = the statement requires rejection
 *                   2 = the statement is silent (no obligation either way):
 *                       leading white space, upper-case radix letters 0X/0B, a sign followed by a
 *                       radix prefix ("-0x10", "-010")
 * Grammar (statement): 0x H+ | 0b B+ | 0 O* | [+-]? D+   and the value within the range of long.
 */
#ifndef CFGV_NUM_SPEC_H
#define CFGV_NUM_SPEC_H
#include <limits.h>

static int spec_digit_val(char c)
{
	if (c >= '0' && c <= '9') return c - '0';
	if (c >= 'a' && c <= 'f') return c - 'a' + 10;
	if (c >= 'A' && c <= 'F') return c - 'A' + 10;
	return 99;
}

static int spec_is_space(char c)
{
	return c == ' ' || c == '\t' || c == '\n' || c == '\v' || c == '\f' || c == '\r';
}

static int spec_int(const char *t, long *v)
{
	int radix = 10, neg = 0, ndig = 0;
	const char *p = t;
	unsigned long acc = 0, lim;

	if (spec_is_space(t[0]))
		return 2;
	if (t[0] == '0') {
		if (t[1] == 'x') { radix = 16; p = t + 2; }
		else if (t[1] == 'b') { radix = 2; p = t + 2; }
		else if (t[1] == 'X' || t[1] == 'B') return 2;
		else { radix = 8; p = t + 1; ndig = 1; /* the leading 0 is a digit */ }
	} else if (t[0] == '-' || t[0] == '+') {
		neg = t[0] == '-';
		p = t + 1;
		if (p[0] == '0' && p[1] != 0)
			return 2;
	}
	lim = neg ? (unsigned long)LONG_MAX + 1UL : (unsigned long)LONG_MAX;
	for (; *p; p++) {
		int d = spec_digit_val(*p);
		if (d >= radix)
			return 0;	/* not a digit of the selected radix: not a numeral */
		if (acc > (lim - (unsigned long)d) / (unsigned long)radix)
			return 0;	/* outside the range of long */
		acc = acc * (unsigned long)radix + (unsigned long)d;
		ndig++;
	}
	if (ndig == 0)
		return 0;		/* at least one digit */
	*v = neg ? -(long)(acc - 1UL) - 1L : (long)acc;
	return 1;
}

/* booleans: true/yes/on -> 1, false/no/off -> 0 in any letter case, everything else -1 */
static char spec_lower(char c) { return (c >= 'A' && c <= 'Z') ? (char)(c - 'A' + 'a') : c; }
static int spec_word_is(const char *t, const char *w)
{
	int i = 0;
	for (; w[i]; i++)
		if (spec_lower(t[i]) != w[i])
			return 0;
	return t[i] == 0;
}
static int spec_bool(const char *t)
{
	if (spec_word_is(t, "true") || spec_word_is(t, "yes") || spec_word_is(t, "on")) return 1;
	if (spec_word_is(t, "false") || spec_word_is(t, "no") || spec_word_is(t, "off")) return 0;
	return -1;
}
#endif
