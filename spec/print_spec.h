/* spec/print_spec.h - reference layout of printed configurations (C19 C05), pure C.
 * Numbers / values produced by callees appear as marker bytes (the digits are libc's business):
 *   M_LONG  an integer written with %ld      M_DOUBLE a float written with %f      M_BADCONV any other conversion
 *   M_VALUE i   value i written by the built-in value formatter      M_PF i   value i written by the print callback
 *   M_SECTION   the body of a section instance (nested print)       M_NULLSTR a NULL pointer handed to %s
 */
#ifndef CFGV_PRINT_SPEC_H
#define CFGV_PRINT_SPEC_H
#define M_LONG 0x01
#define M_DOUBLE 0x02
#define M_BADCONV 0x03
#define M_VALUE 0x04
#define M_PF 0x05
#define M_SECTION 0x06
#define M_NULLSTR 0x07

/* a string value: double quote, the bytes with exactly '"' and '\' escaped by a backslash, double quote (NULL: empty) */
static unsigned spec_print_str(const char *s, unsigned char *out)
{
	unsigned n = 0;
	out[n++] = '"';
	if (s)
		for (unsigned i = 0; s[i]; i++) {
			if (s[i] == '"' || s[i] == '\\') out[n++] = '\\';
			out[n++] = (unsigned char)s[i];
		}
	out[n++] = '"';
	return n;
}

typedef struct { int type_sec, type_func_or_none, type_str, list, titled, annotated, n, has_pf, first_string_null, indent; char name, comment; } spo_in_t;
static unsigned spo_lit(unsigned char *out, unsigned n, const char *s) { for (unsigned i = 0; s[i]; i++) out[n++] = (unsigned char)s[i]; return n; }
static unsigned spo_indent(unsigned char *out, unsigned n, int depth) { for (int i = 0; i < depth; i++) { out[n++] = ' '; out[n++] = ' '; } return n; }
static unsigned spo_value(unsigned char *out, unsigned n, const spo_in_t *s, int i) { out[n++] = s->has_pf ? M_PF : M_VALUE; out[n++] = (unsigned char)('0' + i); return n; }
/* layout of one option (names and annotations are one byte here) */
static unsigned spec_print_opt(const spo_in_t *s, unsigned char *out)
{
	unsigned n = 0;
	if (s->annotated) { n = spo_indent(out, n, s->indent); n = spo_lit(out, n, "/* "); out[n++] = (unsigned char)s->comment; n = spo_lit(out, n, " */\n"); }
	if (s->type_sec) {
		for (int i = 0; i < s->n; i++) {
			n = spo_indent(out, n, s->indent); out[n++] = (unsigned char)s->name;
			if (s->titled) { n = spo_lit(out, n, " \""); out[n++] = (unsigned char)('t' + i); n = spo_lit(out, n, "\""); }
			n = spo_lit(out, n, " {\n");
			out[n++] = M_SECTION;                                                   /* the body, one level deeper */
			n = spo_indent(out, n, s->indent); n = spo_lit(out, n, "}\n");
		}
	} else if (!s->type_func_or_none) {
		n = spo_indent(out, n, s->indent);
		if (s->list) {
			out[n++] = (unsigned char)s->name; n = spo_lit(out, n, " = {");
			for (int i = 0; i < s->n; i++) { if (i) n = spo_lit(out, n, ", "); n = spo_value(out, n, s, i); }
			n = spo_lit(out, n, "}");
		} else {
			if (s->n == 0 || (s->type_str && s->first_string_null)) n = spo_lit(out, n, "# ");      /* unset: commented out */
			out[n++] = (unsigned char)s->name; n = spo_lit(out, n, "=");
			n = spo_value(out, n, s, 0);
		}
		n = spo_lit(out, n, "\n");
	} else if (s->has_pf) {
		n = spo_indent(out, n, s->indent); n = spo_value(out, n, s, 0); n = spo_lit(out, n, "\n");
	}
	return n;
}
#endif
